"""Check context: verdict discipline, known findings, replay directories, evidence writing."""
from __future__ import annotations

import hashlib
import json
import os
import random
import shutil
import sys
import time
from collections import Counter

from . import runner

VERIF = runner.VERIF
KNOWN_FILE = os.path.join(VERIF, "KNOWN_FINDINGS.txt")


def load_known(prop: str):
    """-> (open: {key: text}, fixed: {key: text}) for this property."""
    open_, fixed = {}, {}
    try:
        with open(KNOWN_FILE, encoding="utf-8") as f:
            for line in f:
                line = line.strip()
                if not line or line.startswith("#"):
                    continue
                status, _, rest = line.partition(":")
                status = status.strip()
                head, _, text = rest.partition("::")
                fields = dict(tok.split("=", 1) for tok in head.split() if "=" in tok)
                if fields.get("property") != prop or "key" not in fields:
                    continue
                (open_ if status == "open" else fixed)[fields["key"]] = text.strip()
    except OSError:
        pass
    return open_, fixed


import re as _re

_SCRATCH = _re.compile(r"/[\w/.-]*?/vf\d+(?:-\d+)?/p/[a-z]*\d+-\d+")


class Ctx:
    """One run of one property's check."""

    def __init__(self, prop: str, tier: str, seed: int):
        self.prop = prop
        self.tier = tier
        self.seed = seed
        self.quick = tier == "quick"
        self.t0 = time.monotonic()
        self.counters = Counter()
        self.obs = {}  # free-form monitor observations -> evidence coverage
        self.samples = []
        self.sigs = set()  # distinct non-trivial case signatures
        self.evaluations = 0
        self.rule = ""
        self.assumptions = []
        self.violations = []  # (key, what, replay)
        self.known_seen = {}  # key -> first what
        self.inconclusive = []
        self.open_known, self.fixed_known = load_known(prop)
        self._viol_keys = Counter()
        self.replay_root = os.path.join(VERIF, "replays", prop)

    # -- generators ---------------------------------------------------------------------
    def rng(self, stream: str = "") -> random.Random:
        return random.Random("%s:%d:%s:%s" % (self.prop, self.seed, self.tier, stream))

    def size(self, quick: int, thorough: int) -> int:
        scale = float(os.environ.get("VERIF_SCALE", "1"))
        return max(1, int((quick if self.quick else thorough) * scale))

    # -- coverage -------------------------------------------------------------------------
    def count(self, name: str, n: int = 1) -> None:
        self.counters[name] += n

    def nontrivial(self, sig) -> None:
        if not isinstance(sig, str):
            sig = json.dumps(sig, sort_keys=True, default=str)
        self.sigs.add(hashlib.sha1(sig.encode("utf-8", "surrogatepass")).hexdigest())

    def sample(self, s, limit: int = 5) -> None:
        if len(self.samples) < limit:
            self.samples.append(s)

    # -- verdicts ---------------------------------------------------------------------------
    def discrepancy(self, key: str, what: str, case: dict | None = None, files: dict | None = None) -> None:
        """A deviation from the property, classified by mechanism `key`.

        Listed under `open:` in KNOWN_FINDINGS.txt -> KNOWN-FINDING line; anything else -> VIOLATION.
        """
        self.counters["discrepancies"] += 1
        self.obs.setdefault("discrepancy_keys", {})
        self.obs["discrepancy_keys"][key] = self.obs["discrepancy_keys"].get(key, 0) + 1
        what = _SCRATCH.sub("<proj>", what)
        if key in self.open_known:
            self.counters["known:" + key] += 1
            self.known_seen.setdefault(key, what)
            return
        self._viol_keys[key] += 1
        if self._viol_keys[key] > 2 or len(self._viol_keys) > 60:
            self.counters["violations_not_printed"] += 1
            self.violations.append((key, what, None))
            return
        replay = self.save_replay(key, what, case, files)
        self.violations.append((key, what, replay))

    def inconclusive_if(self, cond: bool, reason: str) -> None:
        if cond:
            self.inconclusive.append(reason)

    def save_replay(self, key, what, case, files) -> str:
        h = hashlib.sha1(("%s|%s|%s" % (key, what, json.dumps(case, sort_keys=True, default=str))).encode("utf-8", "surrogatepass")).hexdigest()[:12]
        d = os.path.join(self.replay_root, h)
        shutil.rmtree(d, ignore_errors=True)
        os.makedirs(d, exist_ok=True)
        with open(os.path.join(d, "case.json"), "w", encoding="utf-8") as f:
            json.dump({"property": self.prop, "key": key, "what": what, "seed": self.seed, "tier": self.tier, "case": case},
                      f, indent=1, default=str, ensure_ascii=True)
        if files:
            try:
                runner.write_tree(os.path.join(d, "project"), files, git_marker=False)
            except (OSError, ValueError, UnicodeError):
                pass
        return d

    # -- finish --------------------------------------------------------------------------------
    def finish(self) -> int:
        wall = time.monotonic() - self.t0
        status = "held"
        if self.violations:
            status = "violated"
        elif self.inconclusive:
            status = "inconclusive"
        coverage = {
            "evaluations": int(self.evaluations),
            "distinct_nontrivial": len(self.sigs),
            "rule": self.rule,
            "samples": self.samples or [{"note": "no sample recorded"}],
            "counters": dict(sorted(self.counters.items())),
            "observations": self.obs,
            "known_findings_observed": sorted(self.known_seen),
            "verdict": status,
            "inconclusive_reasons": self.inconclusive,
        }
        ev = {
            "property_id": self.prop,
            "tier": self.tier,
            "seed": self.seed,
            "level": "exploration",
            "coverage": coverage,
            "assumptions": self.assumptions,
            "wall_s": round(wall, 2),
            "violations": len(self.violations),
        }
        evdir = "evidence" if not os.environ.get("VERIF_NO_EVIDENCE") else "replays/.mutant-evidence"
        os.makedirs(os.path.join(VERIF, evdir), exist_ok=True)
        tmp = os.path.join(VERIF, evdir, ".%s.tmp%d" % (self.prop, os.getpid()))
        with open(tmp, "w", encoding="utf-8") as f:
            json.dump(ev, f, indent=1, default=str, ensure_ascii=True)
            f.write("\n")
        os.replace(tmp, os.path.join(VERIF, evdir, self.prop + ".json"))
        for key in sorted(self.known_seen):
            print("KNOWN-FINDING: property=%s key=%s %s" % (self.prop, key, self.known_seen[key]))
        for key in sorted(self.open_known):
            if key not in self.known_seen:
                print("KNOWN-FINDING-NOT-OBSERVED: property=%s key=%s (listed open, not re-observed in this run)" % (self.prop, key))
        printed = 0
        for key, what, replay in self.violations:
            if replay is None:
                continue
            print("VIOLATION property=%s replay=%s key=%s :: %s" % (self.prop, replay, key, what[:400]))
            printed += 1
        for r in self.inconclusive:
            print("INCONCLUSIVE property=%s reason=%s" % (self.prop, r))
        print("%s property=%s tier=%s seed=%d evaluations=%d distinct_nontrivial=%d known=%d violations=%d wall=%.1fs"
              % (status.upper(), self.prop, self.tier, self.seed, self.evaluations, len(self.sigs), len(self.known_seen),
                 len(self.violations), wall))
        sys.stdout.flush()
        if self.violations:
            return 1
        if self.inconclusive:
            return 2
        return 0


def vkey(v: dict, root: str | None = None):
    """Violation dict -> comparable tuple (rule, relpath, line, column, message)."""
    fp = v.get("file_path", "")
    if root:
        fp = relpath(fp, root)
    return (v.get("rule_id"), fp, v.get("line"), v.get("column"), v.get("message"))


def relpath(fp: str, root: str, cwd: str | None = None) -> str:
    if not os.path.isabs(fp):
        fp = os.path.normpath(os.path.join(cwd or root, fp))
    root_r = os.path.realpath(root)
    fp_r = os.path.normpath(fp)
    for base in (root, root_r):
        if fp_r == base or fp_r.startswith(base.rstrip("/") + "/"):
            return os.path.relpath(fp_r, base)
    return fp_r
