"""pytest plugin: run the repository's own test suite with the C12 location contract and the H1 failure tap switched on.

Loaded with `-p vlib.pytest_plugins.contracts` (PYTHONPATH must contain /verif and /verif/.deps). Every call of the real
Orchestrator.lint_file made by any test is observed by an icontract postcondition (recording, never raising); every exception the
orchestrator swallows is written to the failure log by the repository's own hook. Results go to $VERIF_SUITE_MON (JSON).
"""
from __future__ import annotations

import json
import os

_state = {"evaluations": 0, "failures": [], "files_seen": 0}


def _install():
    import icontract

    import src.orchestrator.core as core

    class LocationContractBroken(Exception):
        pass

    def locations_ok(file_path, result):
        _state["evaluations"] += 1
        try:
            with open(file_path, "rb") as f:
                raw = f.read()
        except OSError:
            return True
        _state["files_seen"] += 1
        lines = raw.replace(b"\r\n", b"\n").replace(b"\r", b"\n").split(b"\n")
        for v in result:
            if str(v.message).startswith("Syntax error"):
                continue
            vp, fp = os.path.normpath(str(v.file_path)), os.path.normpath(str(file_path))
            if vp != fp and not fp.endswith(vp) and not vp.endswith(os.path.basename(fp)):
                _state["failures"].append(["file", v.rule_id, vp, fp])
            elif not (1 <= v.line <= max(1, len(lines))):
                _state["failures"].append(["line", v.rule_id, vp, v.line, len(lines)])
            elif v.column < 0 or v.column > len(lines[v.line - 1]) + 1:
                _state["failures"].append(["column", v.rule_id, vp, v.line, v.column, len(lines[v.line - 1])])
        return True

    core.Orchestrator.lint_file = icontract.ensure(locations_ok, error=LocationContractBroken)(core.Orchestrator.lint_file)


def pytest_configure(config):
    _install()


def pytest_sessionfinish(session, exitstatus):
    out = os.environ.get("VERIF_SUITE_MON")
    if out:
        with open(out, "w", encoding="utf-8") as f:
            json.dump({"contract_evaluations": _state["evaluations"], "files_seen": _state["files_seen"], "failures": _state["failures"][:200],
                       "n_failures": len(_state["failures"])}, f)
