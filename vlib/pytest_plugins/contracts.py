"""pytest plugin: run the repository's own test suite with the C12 location contract and the H1 failure tap switched on.

Loaded with `-p vlib.pytest_plugins.contracts` (PYTHONPATH must contain /verif and /verif/.deps). Every call of the real
Orchestrator.lint_file made by any test is observed by an icontract postcondition (recording, never raising); every exception the
orchestrator swallows is written to the failure log by the repository's own hook. Results go to $VERIF_SUITE_MON (JSON).
"""
from __future__ import annotations

import json
import os

_state = {"evaluations": 0, "failures": [], "files_seen": 0}


import re

_NUM = re.compile(r"(?:(?<![\w.])|(?<=\.\.))(0[xX][0-9a-fA-F_]+|0[oO][0-7_]+|0[bB][01_]+|\d[\d_]*\.?[\d_]*(?:[eE][+-]?\d+)?|\.\d+)")
_PLACEHOLDERS = {"arrow_function", "function_expression", "anonymous", "UnnamedClass"}


def _num(t):
    t = t.replace("_", "")
    try:
        return float(int(t, 0)) if re.match(r"0[xXoObB]", t) else float(t)
    except ValueError:
        return None


def _construct_missing(rule, msg, text):
    """The part of C12's construct-on-line oracle that needs no generator ground truth (returns a reason or None)."""
    fam = rule.split(".")[0]
    if fam == "nesting":
        m = re.search(r"Function '([^']+)' has excessive nesting depth", msg)
        if m and m.group(1) not in _PLACEHOLDERS and m.group(1) not in text:
            return "function name not on the line"
    elif fam in ("srp", "stateless-class"):
        m = re.search(r"Class '([^']+)'", msg)
        if m and m.group(1) not in _PLACEHOLDERS and m.group(1) not in text:
            return "class name not on the line"
    elif fam == "magic-numbers":
        m = re.match(r"Magic number (\S+) should be", msg)
        val = _num(m.group(1)) if m else None
        if val is not None and not any(_num(t) is not None and abs(_num(t)) == abs(val) for t in _NUM.findall(text)):
            return "literal not on the line"
    elif fam == "unwrap-abuse" and not (".unwrap" in text or ".expect" in text):
        return "call not on the line"
    elif fam == "clone-abuse" and ".clone" not in text:
        return "call not on the line"
    return None


def _install():
    import icontract

    import src.orchestrator.core as core

    class LocationContractBroken(Exception):
        pass

    def locations_ok(file_path, result):
        _state["evaluations"] += 1
        try:
            with open(file_path, "rb") as f:
                raw = f.read()
        except OSError:
            return True
        _state["files_seen"] += 1
        lines = raw.replace(b"\r\n", b"\n").replace(b"\r", b"\n").split(b"\n")
        for v in result:
            if str(v.message).startswith("Syntax error"):
                continue
            vp, fp = os.path.normpath(str(v.file_path)), os.path.normpath(str(file_path))
            if vp != fp and not fp.endswith(vp) and not vp.endswith(os.path.basename(fp)):
                _state["failures"].append(["file", v.rule_id, vp, fp])
            elif not (1 <= v.line <= max(1, len(lines))):
                _state["failures"].append(["line", v.rule_id, vp, v.line, len(lines)])
            elif v.column < 0 or v.column > len(lines[v.line - 1]) + 1:
                _state["failures"].append(["column", v.rule_id, vp, v.line, v.column, len(lines[v.line - 1])])
            else:
                why = _construct_missing(str(v.rule_id), str(v.message), lines[v.line - 1].decode("utf-8", "replace"))
                _state["construct_checked"] = _state.get("construct_checked", 0) + 1
                if why:
                    _state["failures"].append(["construct", v.rule_id, vp, v.line, why, lines[v.line - 1].decode("utf-8", "replace")[:120], str(v.message)[:120]])
        return True

    # the per-file step of every entry point (lint_file, lint_files, lint_directory, pool workers): what it returns is about THAT file
    prim = "_lint_file_with_rules" if hasattr(core.Orchestrator, "_lint_file_with_rules") else "lint_file"
    setattr(core.Orchestrator, prim, icontract.ensure(locations_ok, error=LocationContractBroken)(getattr(core.Orchestrator, prim)))


def pytest_configure(config):
    _install()


def pytest_sessionfinish(session, exitstatus):
    out = os.environ.get("VERIF_SUITE_MON")
    if out:
        with open(out, "w", encoding="utf-8") as f:
            json.dump({"contract_evaluations": _state["evaluations"], "files_seen": _state["files_seen"], "failures": _state["failures"][:200], "construct_checked": _state.get("construct_checked", 0),
                       "n_failures": len(_state["failures"])}, f)
