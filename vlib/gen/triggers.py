"""A polyglot trigger project: every linter command has at least one violation in it.

No absolute ground truth is attached - the relational monitors (C06..C10, C13, C15) compare runs
with each other. `COMMANDS` lists every linter command with the rule-id family it may output
(from docs/cli-reference.md and the per-linter docs) and whether it reports on this project.
"""
from __future__ import annotations

# command -> (documented rule-id prefixes, needs-config note)
COMMANDS = {
    "nesting": ("nesting.",),
    "srp": ("srp.",),
    "dry": ("dry.",),
    "magic-numbers": ("magic-numbers.",),
    "stringly-typed": ("stringly-typed.",),
    "file-placement": ("file-placement",),
    "improper-logging": ("improper-logging.",),
    "print-statements": ("improper-logging.",),
    "method-property": ("method-property.",),
    "stateless-class": ("stateless-class.",),
    "lazy-ignores": ("lazy-ignores.",),
    "lbyl": ("lbyl.",),
    "file-header": ("file-header.",),
    "pipeline": ("collection-pipeline.",),
    "perf": ("performance.",),
    "string-concat-loop": ("performance.string-concat-loop",),
    "regex-in-loop": ("performance.regex-in-loop",),
    "unwrap-abuse": ("unwrap-abuse.",),
    "clone-abuse": ("clone-abuse.",),
    "blocking-async": ("blocking-async.",),
}
CMDS = sorted(COMMANDS)

BASE_CONFIG_YAML = """dry:
  enabled: true
  min_duplicate_lines: 3
file-placement:
  global_deny:
    - pattern: ".*third%(t)s\\\\.py$"
      reason: "no third module here"
"""


def files(tag: str = "", n1: int = 37, n2: int = 4217, n3: int = 7331, modes=("fast", "slow", "medium")) -> dict:
    """The trigger project. `tag` alpha-renames file names and some identifiers; numbers vary the literals."""
    t = tag
    m = modes
    app = '''import os
import re


def fetch_value%(t)s(data, key):
    if key in data:
        return data[key]
    return None


def show%(t)s(items):
    print("starting")
    total = 0
    for item in items:
        if not item:
            continue
        if item < 0:
            continue
        total += item * %(n1)d
    return total


def build_text%(t)s(parts):
    result = ""
    for part in parts:
        result += part
    return result


def find_all%(t)s(lines):
    out = []
    for line in lines:
        if re.match(r"\\d+", line):
            out.append(line)
    return out


class Helper%(t)s:
    def compute(self, a, b):
        return a + b

    def double(self, a):
        return a * 2


class Person%(t)s:
    def __init__(self, name):
        self._name = name

    def get_name(self):
        return self._name

    def name_upper(self):
        return self._name.upper()


def set_mode%(t)s(mode):
    if mode in ("%(m0)s", "%(m1)s", "%(m2)s"):
        return mode
    return "%(m0)s"


def check_mode%(t)s(mode):
    if mode in ("%(m0)s", "%(m1)s", "%(m2)s"):
        return True
    return False


def deep%(t)s(a, items):
    for i in items:
        if a:
            while a:
                if i:
                    for j in items:
                        if j:
                            work(j)
''' % {"t": t, "n1": n1, "m0": m[0], "m1": m[1], "m2": m[2]}
    other = '''"""
Purpose: other module
"""


def pick%(t)s(mode):
    if mode in ("%(m0)s", "%(m1)s", "%(m2)s"):
        return 1
    return 2


def worker%(t)s(a, b):  # noqa: E501
    x%(t)s = a + b
    y%(t)s = x%(t)s * a
    z%(t)s = y%(t)s - b
    w%(t)s = z%(t)s + x%(t)s
    q%(t)s = w%(t)s * y%(t)s
    return q%(t)s


def worker_two%(t)s(a, b):
    x%(t)s = a + b
    y%(t)s = x%(t)s * a
    z%(t)s = y%(t)s - b
    w%(t)s = z%(t)s + x%(t)s
    q%(t)s = w%(t)s * y%(t)s
    return q%(t)s + 1
''' % {"t": t, "m0": m[0], "m1": m[1], "m2": m[2]}
    third = '''def worker_three%(t)s(a, b):
    x%(t)s = a + b
    y%(t)s = x%(t)s * a
    z%(t)s = y%(t)s - b
    w%(t)s = z%(t)s + x%(t)s
    q%(t)s = w%(t)s * y%(t)s
    return q%(t)s + 2
''' % {"t": t}
    web = '''// web module

export class DataManager%(t)s {
  private items: number[] = [];

  load(a: number): number {
    console.log("loading");
    return a * %(n2)d;
  }

  store(a: number): void {
    if (a > 0) {
      for (const i of this.items) {
        while (a > i) {
          if (i > 2) {
            this.load(i);
          }
        }
      }
    }
  }
}

export function joinAll%(t)s(parts: string[]): string {
  let result = "";
  for (const part of parts) {
    result += part;
  }
  return result;
}
''' % {"t": t, "n2": n2}
    core = '''// core module
use std::fs;

pub struct Engine%(t)s {
    level: i32,
}

impl Engine%(t)s {
    pub fn run(&self, items: &[String]) -> usize {
        let first = items.first().unwrap();
        let mut total = 0;
        for item in items {
            let copy = item.clone();
            total += copy.len() * %(n3)d;
        }
        total + first.len()
    }
}

pub async fn load_config%(t)s(path: &str) -> String {
    let text = fs::read_to_string(path).expect("readable");
    std::thread::sleep(std::time::Duration::from_millis(10));
    text
}

fn deep%(t)s(a: i32, items: &[i32]) {
    for i in items {
        if a > 0 {
            while a > *i {
                if *i > 2 {
                    loop {
                        work(a);
                    }
                }
            }
        }
    }
}
''' % {"t": t, "n3": n3}
    return {
        "src/app%s.py" % t: app,
        "src/other%s.py" % t: other,
        "src/third%s.py" % t: third,
        "src/web%s.ts" % t: web,
        "src/core%s.rs" % t: core,
        ".thailint.yaml": BASE_CONFIG_YAML % {"t": t},
    }


def random_files(rng, tag: str = "") -> dict:
    modes = rng.sample(["fast", "slow", "medium", "turbo", "eco", "idle", "burst"], 3)
    return files(tag, n1=rng.randint(20, 999), n2=rng.randint(1001, 9999), n3=rng.randint(1001, 9999), modes=modes)
