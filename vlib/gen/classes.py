"""Classes / structs with known public-method count, LOC and name (ground truth for C16 / C12).

LOC (docs/srp-linter.md): lines of the class from its header to its end, excluding blank lines and comment lines.
Public methods: regular, static, class and async methods; NOT `_private`, dunder / constructor, @property.
"""
from __future__ import annotations

# header comments end in non-ASCII text: from there on byte offsets and character offsets differ (Latin-1 supplement, Thai, CJK, astral plane)
NON_ASCII = " \u2014 g\u00e9n\u00e9r\u00e9 \u0e2a\u0e23\u0e49\u0e32\u0e07 \u751f\u6210 \U0001f600"

KEYWORDS = ["Manager", "Handler", "Processor", "Utility", "Helper"]
NEUTRAL = ["Account", "Ledger", "Widget", "Parcel", "Invoice", "Ticket", "Channel", "Sensor", "Route", "Garden"]


class Lines:
    def __init__(self):
        self.lines = []
        self.kinds = []  # code / blank / comment

    def code(self, t):
        self.lines.append(t)
        self.kinds.append("code")

    def blank(self):
        self.lines.append("")
        self.kinds.append("blank")

    def comment(self, t):
        self.lines.append(t)
        self.kinds.append("comment")


def gen_spec(rng, idx, M, L, with_noise=True):
    """Abstract class: member kinds and a LOC target around L, method count around M."""
    m_target = max(0, M + rng.choice([-2, -1, 0, 0, 1, 1, 2]))
    loc_target = max(4, L + rng.choice([-2, -1, 0, 0, 1, 1, 2, -8, 9]))
    kinds = ["public"] * m_target
    for i in range(len(kinds)):
        r = rng.random()
        if r < 0.12:
            kinds[i] = "static"
        elif r < 0.2:
            kinds[i] = "classmethod"
        elif r < 0.28:
            kinds[i] = "async"
    extra = []
    for _ in range(rng.randint(0, 4)):
        extra.append(rng.choice(["private", "dunder", "property", "ctor"]))
    members = kinds + extra
    rng.shuffle(members)
    kw = rng.random() < 0.35
    base = rng.choice(NEUTRAL)
    name = "%s%s%d" % (base, rng.choice(KEYWORDS) if kw else "", idx) if rng.random() < 0.7 else "%s%s%d" % (rng.choice(KEYWORDS) if kw else "", base, idx)
    return {"name": name, "members": members, "loc_target": loc_target, "noise": with_noise and rng.random() < 0.6, "keyword": kw}


def _pad(lines: Lines, pad_fn, target_loc: int, start_index: int):
    """Append filler code lines (via pad_fn(i)) until the class has target_loc code lines (minus closing lines handled by caller)."""
    i = 0
    while sum(1 for k in lines.kinds[start_index:] if k == "code") < target_loc:
        lines.code(pad_fn(i))
        i += 1


def render_py(rng, spec, out: Lines):
    start = len(out.lines)
    out.code("class %s:" % spec["name"])
    header_line = len(out.lines)
    n = 0
    seen_ctor = False
    names = set()
    for kind in spec["members"]:
        n += 1
        if spec["noise"] and rng.random() < 0.5:
            out.blank()
        if spec["noise"] and rng.random() < 0.3:
            out.comment("    # note about member %d" % n)
        if kind == "public":
            out.code("    def act_%d(self, a):" % n)
        elif kind == "async":
            out.code("    async def act_%d(self, a):" % n)
        elif kind == "static":
            out.code("    @staticmethod")
            out.code("    def act_%d(a):" % n)
        elif kind == "classmethod":
            out.code("    @classmethod")
            out.code("    def act_%d(cls, a):" % n)
        elif kind == "private":
            out.code("    def _hidden_%d(self, a):" % n)
        elif kind == "property":
            out.code("    @property")
            out.code("    def view_%d(self):" % n)
            if rng.random() < 0.4:
                # the rest of the same property: its setter and deleter are not public methods either
                out.code("        return self.base_%d" % n)
                out.blank()
                out.code("    @view_%d.setter" % n)
                out.code("    def view_%d(self, value):" % n)
                out.code("        self.base_%d = value" % n)
                out.blank()
                out.code("    @view_%d.deleter" % n)
                out.code("    def view_%d(self):" % n)
        elif kind in ("dunder", "ctor"):
            dn = "__init__" if not seen_ctor else rng.choice(["__str__", "__repr__", "__len__", "__eq__", "__hash__"])
            if dn in names:
                dn = "__call__" if "__call__" not in names else "__bool__"
            if dn in names:
                out.code("    def _hidden_%d(self, a):" % n)
            else:
                names.add(dn)
                seen_ctor = True
                out.code("    def %s(self%s):" % (dn, ", other" if dn == "__eq__" else ""))
        out.code("        return self.base_%d" % n)
    if not spec["members"]:
        out.code("    base_0 = None")
    # pad inside a trailing private helper so the public count is unaffected
    have = sum(1 for k in out.kinds[start:] if k == "code")
    if have < spec["loc_target"]:
        if spec["loc_target"] - have >= 2:
            out.code("    def _filler(self, a):")
            _pad(out, lambda i: "        a = a + self.pad_%d" % i, spec["loc_target"], start)
        else:
            out.code("    tail_%d = None" % n)
    loc = sum(1 for k in out.kinds[start:] if k == "code")
    m = sum(1 for k in spec["members"] if k in ("public", "async", "static", "classmethod"))
    return {"name": spec["name"], "line": header_line, "methods": m, "loc": loc, "keyword": spec["keyword"],
            "has_noise": any(k != "code" for k in out.kinds[start:])}


def _c_comment(rng, out: Lines, ind: str, n: int):
    """A comment above a member in any of the spellings of a brace language: line comment, one-line block, multi-line (doc) block."""
    r = rng.random()
    if r < 0.4:
        out.comment("%s// note about member %d" % (ind, n))
    elif r < 0.6:
        out.comment("%s/* note about member %d */" % (ind, n))
    else:
        out.comment("%s/**" % ind)
        out.comment("%s * Note about member %d," % (ind, n))
        if rng.random() < 0.5:
            out.comment("%s * on two lines." % ind)
        out.comment("%s */" % ind)


def render_ts(rng, spec, out: Lines, js=False):
    # every way of writing a class is a class: plain, exported, abstract (ts), named class expression
    form = rng.choice(["plain", "plain", "export", "expr"] + ([] if js else ["abstract", "export-abstract"]))
    if not js and form in ("plain", "abstract") and rng.random() < 0.35:
        # decorators sit above the header: they are neither the header line nor lines "from its header to its end"
        for d in rng.sample(["@sealed", "@registered({ scope: \"app\" })", "@tracked"], rng.randint(1, 2)):
            out.code(d)
    start = len(out.lines)
    head = {"plain": "class %s {", "export": "export class %s {", "abstract": "abstract class %s {", "export-abstract": "export abstract class %s {",
            "expr": "const %s = class %s {".replace("%s", "%(n)s")}[form]
    out.code(head % {"n": spec["name"]} if form == "expr" else head % spec["name"])
    header_line = len(out.lines)
    ty = (lambda s: "") if js else (lambda s: s)
    n = 0
    seen_ctor = False
    for kind in spec["members"]:
        n += 1
        if spec["noise"] and rng.random() < 0.5:
            out.blank()
        if spec["noise"] and rng.random() < 0.3:
            _c_comment(rng, out, "  ", n)
        if kind in ("public", "classmethod"):
            out.code("  act_%d(a%s)%s {" % (n, ty(": number"), ty(": number")))
        elif kind == "async":
            out.code("  async act_%d(a%s)%s {" % (n, ty(": number"), ty(": Promise<number>")))
        elif kind == "static":
            out.code("  static act_%d(a%s)%s {" % (n, ty(": number"), ty(": number")))
        elif kind in ("private", "property"):
            # private by convention (_name), by the language (#name) or by the TypeScript modifier
            out.code(rng.choice(["  _hidden_%d(a%s)%s {", "  _hidden_%d(a%s)%s {", "  #hidden_%d(a%s)%s {"] + ([] if js else ["  private hidden_%d(a%s)%s {"])) % (n, ty(": number"), ty(": number")))
        else:
            if seen_ctor:
                out.code("  _hidden_%d(a%s)%s {" % (n, ty(": number"), ty(": number")))
            else:
                seen_ctor = True
                out.code("  constructor(a%s) {" % ty(": number"))
                out.code("    this.base_%d = a;" % n)
                out.code("  }")
                continue
        out.code("    return a;")
        out.code("  }")
    if rng.random() < 0.3:
        # string literals that contain comment markers, in every quote style: code lines like any other
        out.code("  glob_%d = %s;" % (n, rng.choice(["'lib/*'", "'http://host/*.ts'", "\"a /* b\"", "`c /* ${1} d`", "'it\\'s /* fine'", "'// not a comment'"])))
    have = sum(1 for k in out.kinds[start:] if k == "code") + 1
    if have < spec["loc_target"]:
        if spec["loc_target"] - have >= 2:
            out.code("  _filler(a%s)%s {" % (ty(": number"), ty(": number")))
            _pad(out, lambda i: "    a = a + this.pad_%d;" % i, spec["loc_target"] - 2, start)
            out.code("  }")
        else:
            out.code("  tail_%d = 0;" % n)
    out.code("};" if form == "expr" else "}")
    loc = sum(1 for k in out.kinds[start:] if k == "code")
    m = sum(1 for k in spec["members"] if k in ("public", "async", "static", "classmethod"))
    fact = {"name": spec["name"], "line": header_line, "form": form, "methods": m, "loc": loc, "keyword": spec["keyword"],
            "has_noise": any(k != "code" for k in out.kinds[start:]), "span": len(out.lines) - start}
    if form in ("plain", "expr") and start == len(out.lines) - fact["span"] and rng.random() < 0.25:
        # a class is a class wherever it is declared: inside a method of another class / as a static class-expression field
        inner_lines, inner_kinds = out.lines[start:], out.kinds[start:]
        del out.lines[start:]
        del out.kinds[start:]
        host = "Host%s" % spec["name"][-6:]
        out.code("class %s {" % host)
        if form == "plain":
            out.code("  build() {")
            pad, opener, closer = "    ", 2, ["    return %s;" % spec["name"], "  }", "}"]
        else:
            # (const X = class X {...}; becomes the static field  static X = class X {...};)
            inner_lines[0] = inner_lines[0].replace("const %s = class" % spec["name"], "static %s = class" % spec["name"], 1)
            pad, opener, closer = "  ", 1, ["  ready() {", "    return 1;", "  }", "}"]
        for ln, kd in zip(inner_lines, inner_kinds):
            out.lines.append(pad + ln if ln.strip() else ln)
            out.kinds.append(kd)
        for ln in closer:
            out.code(ln)
        fact["line"] = header_line + opener
        fact["form"] = form + "-nested"
        fact["host"] = {"name": host, "line": start + 1, "form": "plain", "methods": 1, "loc": sum(1 for k in out.kinds[start:] if k == "code"), "keyword": False,
                        "has_noise": fact["has_noise"], "span": len(out.lines) - start}
    return fact


def render_rs(rng, spec, out: Lines):
    start = len(out.lines)
    # a struct with type or lifetime parameters is still a struct with impl blocks; the methods may be spread over several impl blocks
    form = rng.choice(["plain", "plain", "generic", "lifetime"])
    params, field = {"plain": ("", None), "generic": ("<T>", "    extra: T,"), "lifetime": ("<'a>", "    label: &'a str,")}[form]
    out.code("pub struct %s%s {" % (spec["name"], params))
    header_line = len(out.lines)
    out.code("    base: i64,")
    if field:
        out.code(field)
    out.code("}")
    out.blank()
    impl_head = "impl%s %s%s {" % (params, spec["name"], params)
    out.code(impl_head)
    split_at = rng.randint(1, len(spec["members"])) if len(spec["members"]) > 1 and rng.random() < 0.4 else None
    n = 0
    for kind in spec["members"]:
        n += 1
        if split_at is not None and n == split_at + 1:
            out.code("}")
            out.blank()
            out.code(impl_head)
        if spec["noise"] and rng.random() < 0.5:
            out.blank()
        if spec["noise"] and rng.random() < 0.3:
            _c_comment(rng, out, "    ", n)
        if kind in ("public", "classmethod", "async"):
            out.code("    pub %sfn act_%d(&self, a: i64) -> i64 {" % ("async " if kind == "async" else "", n))
        elif kind == "static":
            out.code("    pub fn act_%d(a: i64) -> i64 {" % n)
        else:
            out.code("    fn _hidden_%d(&self, a: i64) -> i64 {" % n)
        out.code("        a + self.base")
        out.code("    }")
    have = sum(1 for k in out.kinds[start:] if k == "code") + 1
    if have < spec["loc_target"]:
        if spec["loc_target"] - have >= 3:
            out.code("    fn _filler(&self, a: i64) -> i64 {")
            # (every other filler line is a dereferencing statement: a code line that starts with a star)
            _pad(out, lambda i: ("        *hits_%d += a;" if i % 2 else "        let a = a + self.base + pad_%d;") % i, spec["loc_target"] - 3, start)
            out.code("        a")
            out.code("    }")
    out.code("}")
    loc = sum(1 for k in out.kinds[start:] if k == "code")
    m = sum(1 for k in spec["members"] if k in ("public", "async", "static", "classmethod"))
    return {"name": spec["name"], "line": header_line, "form": form, "methods": m, "loc": loc, "keyword": spec["keyword"],
            "has_noise": any(k != "code" for k in out.kinds[start:]) }


def gen_file(rng, lang, idx, M, L, nclasses, with_noise=True):
    out = Lines()
    facts = []
    if lang == "py":
        out.code('"""Generated classes%s."""' % NON_ASCII)
    else:
        out.comment("// Generated classes" + NON_ASCII)
    for c in range(nclasses):
        out.blank()
        out.blank()
        spec = gen_spec(rng, idx * 100 + c, M, L, with_noise)
        if lang == "py":
            facts.append(render_py(rng, spec, out))
        elif lang in ("ts", "js"):
            f_ = render_ts(rng, spec, out, js=(lang == "js"))
            facts.append(f_)
            if f_.get("host"):
                facts.append(f_.pop("host"))
        else:
            f_ = render_rs(rng, spec, out)
            facts.append(f_)
            if not f_["keyword"] and rng.random() < 0.25:
                # another module may declare a type of the same name: it has no methods of its own, whatever its namesake has
                out.blank()
                out.code("mod shadow_%d {" % c)
                out.code("    pub struct %s {" % spec["name"])
                out.code("        other: i64,")
                out.code("    }")
                out.code("}")
                facts.append({"name": spec["name"], "line": len(out.lines) - 3, "form": "shadow", "methods": 0, "loc": 3, "keyword": False, "has_noise": False, "span": 3})
    return "\n".join(out.lines) + "\n", facts
