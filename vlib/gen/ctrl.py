"""Control-flow skeletons with ground-truth nesting depth, rendered to py / ts / js / rs.

A block is a list of items; an item is "S" (plain statement) or (kind, [block, ...]).
depth(function) = 1 + max number of control structures enclosing any plain statement.
Every block contains at least one plain statement, so the deepest statement always exists.
Ground truth comes from this abstract tree, never from parsing the rendered text.
"""
from __future__ import annotations

# kind -> number of blocks (min, max)
# header comments end in non-ASCII text: from there on byte offsets and character offsets differ (Latin-1 supplement, Thai, CJK, astral plane)
NON_ASCII = " \u2014 g\u00e9n\u00e9r\u00e9 \u0e2a\u0e23\u0e49\u0e32\u0e07 \u751f\u6210 \U0001f600"

COMMON = {"if": (1, 1), "ifelse": (2, 2), "for": (1, 1), "while": (1, 1)}
EXTRA = {
    "py": {"with": (1, 1), "try": (2, 4), "trystar": (2, 3), "elif": (2, 4), "match": (1, 3), "asyncfor": (1, 1), "asyncwith": (1, 1)},
    "ts": {"forin": (1, 1), "forof": (1, 1), "dowhile": (1, 1), "try": (2, 3), "switch": (1, 3)},
    "rs": {"loop": (1, 1), "match": (1, 3), "closure": (1, 1), "iflet": (1, 1), "whilelet": (1, 1), "asyncblock": (1, 1)},
}
EXTRA["js"] = EXTRA["ts"]
# documented constructs whose handling is probed separately (each has its own finding key)
PROBE = {"py": {}, "rs": {}, "ts": {}, "js": {}}


def kinds_for(lang: str, common_only: bool = False) -> dict:
    k = dict(COMMON)
    if not common_only:
        k.update(EXTRA[lang])
    return k


def gen_block(rng, kinds: dict, depth_left: int, budget: list) -> list:
    """Random block with at least one plain statement; budget[0] bounds the number of structures."""
    items = []
    n = rng.randint(1, 3)
    for _ in range(n):
        if depth_left > 0 and budget[0] > 0 and rng.random() < 0.6:
            budget[0] -= 1
            kind = rng.choice(sorted(kinds))
            lo, hi = kinds[kind]
            nb = rng.randint(lo, hi)
            blocks = [gen_block(rng, kinds, depth_left - 1, budget) for _ in range(nb)]
            items.append((kind, blocks))
        else:
            items.append("S")
    if "S" not in items:
        items.insert(rng.randint(0, len(items)), "S")
    return items


def gen_chain(rng, kinds: dict, depth: int) -> list:
    """A block whose deepest statement sits under exactly `depth` structures (a single spine)."""
    block = ["S"]
    for _ in range(depth):
        kind = rng.choice(sorted(kinds))
        lo, hi = kinds[kind]
        nb = rng.randint(lo, hi)
        blocks = [["S"] for _ in range(nb)]
        blocks[rng.randrange(nb)] = block
        block = [(kind, blocks)]
        if rng.random() < 0.5:
            block.insert(rng.randint(0, 1), "S")
    return block


def block_depth(block) -> int:
    """Max number of structures enclosing a plain statement of this block."""
    best = 0
    for it in block:
        if it == "S":
            continue
        _, blocks = it
        best = max(best, 1 + max(block_depth(b) for b in blocks))
    return best


def wrap_deepest(block, kind: str, nblocks: int = 1):
    """Copy of block with (one of) the deepest plain statement(s) wrapped in one more structure."""
    target = block_depth(block)

    def rec(b, d):
        out = []
        done = False
        for it in b:
            if done:
                out.append(it)
            elif it == "S":
                if d == target:
                    out.append((kind, [["S"]] + [["S"] for _ in range(nblocks - 1)]))
                    done = True
                else:
                    out.append(it)
            else:
                k, blocks = it
                nb = []
                for sub in blocks:
                    if not done and d + 1 + block_depth(sub) == target:
                        sub2, ok = rec(sub, d + 1)
                        nb.append(sub2)
                        done = done or ok
                    else:
                        nb.append(sub)
                out.append((k, nb))
        return out, done

    new, ok = rec(block, 0)
    assert ok and block_depth(new) == target + 1
    return new


IF_LIKE = ("if", "ifelse", "elif")


def no_lone_if_in_else(block) -> list:
    """Ambiguity guard: `else: if ...` is the same Python AST as `elif` (counts once) while brace
    languages nest it. An else-block that consists solely of an if gets a plain statement added."""
    out = []
    for it in block:
        if it == "S":
            out.append(it)
            continue
        kind, blocks = it
        blocks = [no_lone_if_in_else(b) for b in blocks]
        if kind in ("ifelse", "elif"):
            for i in range(1, len(blocks)):
                b = blocks[i]
                if len(b) == 1 and b[0] != "S" and b[0][0] in IF_LIKE:
                    blocks[i] = b + ["S"]
        out.append((kind, blocks))
    return out


def kinds_used(block, acc=None) -> set:
    acc = set() if acc is None else acc
    for it in block:
        if it != "S":
            acc.add(it[0])
            for b in it[1]:
                kinds_used(b, acc)
    return acc


# ----------------------------------------------------------------------------- rendering
class Out:
    def __init__(self, indent: str):
        self.lines = []
        self.indent = indent
        self.n = 0

    def emit(self, level: int, text: str):
        self.lines.append(self.indent * level + text)

    def fresh(self) -> int:
        self.n += 1
        return self.n

    @property
    def lineno(self) -> int:
        return len(self.lines) + 1


def _compact(o: Out, start: int, layout):
    """Re-lay the lines emitted since `start` (one brace-language function): 'one-line' puts the whole function on its header line,
    'pairs' joins every two body lines - several blocks then open on one physical line. Line comments would swallow what follows: left alone."""
    seg = o.lines[start:]
    if not layout or any("//" in ln for ln in seg) or len(seg) < 3:
        return
    if layout == "one-line":
        o.lines[start:] = [seg[0] + " " + " ".join(ln.strip() for ln in seg[1:])]
    elif layout == "body-line":
        # header / the whole body on one line / closing brace: three physical lines whatever the depth
        o.lines[start:] = [seg[0], seg[1][:len(seg[1]) - len(seg[1].lstrip())] + " ".join(ln.strip() for ln in seg[1:-1]), seg[-1]]
    else:
        body = seg[1:]
        joined = [body[k] + (" " + body[k + 1].strip() if k + 1 < len(body) else "") for k in range(0, len(body), 2)]
        o.lines[start:] = [seg[0]] + joined


def _py_block(o: Out, block, lv: int, uid):
    for it in block:
        if it == "S":
            o.emit(lv, "work_%s(a)" % uid())
            continue
        kind, bl = it
        if kind == "if":
            o.emit(lv, "if a > cond_%s:" % uid())
            _py_block(o, bl[0], lv + 1, uid)
        elif kind == "ifelse":
            o.emit(lv, "if a > cond_%s:" % uid())
            _py_block(o, bl[0], lv + 1, uid)
            o.emit(lv, "else:")
            _py_block(o, bl[1], lv + 1, uid)
        elif kind == "elif":
            o.emit(lv, "if a > cond_%s:" % uid())
            _py_block(o, bl[0], lv + 1, uid)
            for b in bl[1:-1]:
                o.emit(lv, "elif a > cond_%s:" % uid())
                _py_block(o, b, lv + 1, uid)
            if len(bl) > 2:
                o.emit(lv, "else:")
            else:
                o.emit(lv, "elif a > cond_%s:" % uid())
            _py_block(o, bl[-1], lv + 1, uid)
        elif kind == "for":
            o.emit(lv, "for it_%s in items:" % uid())
            _py_block(o, bl[0], lv + 1, uid)
        elif kind == "asyncfor":
            o.emit(lv, "async for it_%s in items:" % uid())
            _py_block(o, bl[0], lv + 1, uid)
        elif kind == "while":
            o.emit(lv, "while a < cond_%s:" % uid())
            _py_block(o, bl[0], lv + 1, uid)
        elif kind == "with":
            o.emit(lv, "with ctx_%s(a) as res:" % uid())
            _py_block(o, bl[0], lv + 1, uid)
        elif kind == "asyncwith":
            o.emit(lv, "async with ctx_%s(a) as res:" % uid())
            _py_block(o, bl[0], lv + 1, uid)
        elif kind == "try":
            # blocks: body, except[, else][, finally]
            o.emit(lv, "try:")
            _py_block(o, bl[0], lv + 1, uid)
            o.emit(lv, "except Err_%s:" % uid())
            _py_block(o, bl[1], lv + 1, uid)
            if len(bl) == 4:
                o.emit(lv, "else:")
                _py_block(o, bl[2], lv + 1, uid)
            if len(bl) >= 3:
                o.emit(lv, "finally:")
                _py_block(o, bl[-1], lv + 1, uid)
        elif kind == "trystar":
            # exception groups (3.11): try / except* [/ finally]
            o.emit(lv, "try:")
            _py_block(o, bl[0], lv + 1, uid)
            o.emit(lv, "except* Err_%s:" % uid())
            _py_block(o, bl[1], lv + 1, uid)
            if len(bl) == 3:
                o.emit(lv, "finally:")
                _py_block(o, bl[2], lv + 1, uid)
        elif kind == "match":
            o.emit(lv, "match a:")
            for i, b in enumerate(bl):
                o.emit(lv + 1, "case %s:" % ("_" if i == len(bl) - 1 else "key_%s" % uid() + ".x"))
                _py_block(o, b, lv + 2, uid)
        else:
            raise ValueError(kind)


def _c_block(o: Out, block, lv: int, uid, lang: str):
    """ts/js/rs share brace syntax."""
    rs = lang == "rs"
    p = (lambda s: s) if rs else (lambda s: "(" + s + ")")
    for it in block:
        if it == "S":
            o.emit(lv, "work_%s(a);" % uid())
            continue
        kind, bl = it
        if kind == "if":
            o.emit(lv, "if %s {" % p("a > cond_%s" % uid()))
            _c_block(o, bl[0], lv + 1, uid, lang)
            o.emit(lv, "}")
        elif kind == "ifelse":
            o.emit(lv, "if %s {" % p("a > cond_%s" % uid()))
            _c_block(o, bl[0], lv + 1, uid, lang)
            o.emit(lv, "} else {")
            _c_block(o, bl[1], lv + 1, uid, lang)
            o.emit(lv, "}")
        elif kind == "for":
            if rs:
                o.emit(lv, "for it_%s in items.iter() {" % uid())
            else:
                v = "i_%s" % uid()
                o.emit(lv, "for (let %s = 0; %s < a; %s++) {" % (v, v, v))
            _c_block(o, bl[0], lv + 1, uid, lang)
            o.emit(lv, "}")
        elif kind == "forof":
            o.emit(lv, "for (const it_%s of items) {" % uid())
            _c_block(o, bl[0], lv + 1, uid, lang)
            o.emit(lv, "}")
        elif kind == "forin":
            o.emit(lv, "for (const key_%s in items) {" % uid())
            _c_block(o, bl[0], lv + 1, uid, lang)
            o.emit(lv, "}")
        elif kind == "while":
            o.emit(lv, "while %s {" % p("a < cond_%s" % uid()))
            _c_block(o, bl[0], lv + 1, uid, lang)
            o.emit(lv, "}")
        elif kind == "dowhile":
            o.emit(lv, "do {")
            _c_block(o, bl[0], lv + 1, uid, lang)
            o.emit(lv, "} while (a < cond_%s);" % uid())
        elif kind == "try":
            o.emit(lv, "try {")
            _c_block(o, bl[0], lv + 1, uid, lang)
            o.emit(lv, "} catch (err_%s) {" % uid())
            _c_block(o, bl[1], lv + 1, uid, lang)
            if len(bl) == 3:
                o.emit(lv, "} finally {")
                _c_block(o, bl[2], lv + 1, uid, lang)
            o.emit(lv, "}")
        elif kind == "switch":
            o.emit(lv, "switch (a) {")
            for i, b in enumerate(bl):
                o.emit(lv + 1, "default:" if i == len(bl) - 1 else "case key_%s:" % uid())
                _c_block(o, b, lv + 2, uid, lang)
                o.emit(lv + 2, "break;")
            o.emit(lv, "}")
        elif kind == "loop":
            o.emit(lv, "loop {")
            _c_block(o, bl[0], lv + 1, uid, lang)
            o.emit(lv, "}")
        elif kind == "match":
            o.emit(lv, "match a {")
            for i, b in enumerate(bl):
                o.emit(lv + 1, "%s => {" % ("_" if i == len(bl) - 1 else "key_%s" % uid()))
                _c_block(o, b, lv + 2, uid, lang)
                o.emit(lv + 1, "}")
            o.emit(lv, "}")
        elif kind == "closure":
            inner = bl[0]
            if len(inner) == 1 and inner[0] != "S" and inner[0][0] in ("if", "ifelse", "match", "loop", "while", "for") and (o.fresh() % 2 == 0):
                # expression-bodied closure (what rustfmt makes of `|x| { match x {..} }`): still a closure level
                o.emit(lv, "let clo_%s = %s|x: i32|" % (uid(), "move " if o.n % 3 == 0 else ""))
                _c_block(o, inner, lv + 1, uid, lang)
                o.emit(lv, ";")
            else:
                o.emit(lv, "let clo_%s = |x: i32| {" % uid())
                _c_block(o, inner, lv + 1, uid, lang)
                o.emit(lv, "};")
        elif kind == "asyncblock":
            o.emit(lv, "let fut_%s = async {" % uid())
            _c_block(o, bl[0], lv + 1, uid, lang)
            o.emit(lv, "};")
        elif kind == "iflet":
            o.emit(lv, "if let Some(val_%s) = opt {" % uid())
            _c_block(o, bl[0], lv + 1, uid, lang)
            o.emit(lv, "}")
        elif kind == "whilelet":
            o.emit(lv, "while let Some(val_%s) = stack.pop() {" % uid())
            _c_block(o, bl[0], lv + 1, uid, lang)
            o.emit(lv, "}")
        else:
            raise ValueError(kind)


def render(lang: str, funcs: list, indent: str = "    ", gap: int = 1, prefix: str = "u") -> tuple:
    """funcs: list of {"name", "style": func|method|arrow|fexpr|generator (the last three: ts/js), "block", "async": bool}.

    Returns (text, facts) where facts[name] = {"line": header line (1-based), "depth": d, "style":...}.
    """
    o = Out(indent)
    counter = [0]

    def uid():
        counter[0] += 1
        return "%s%d" % (prefix, counter[0])

    facts = {}
    methods = [f for f in funcs if f["style"] == "method"]
    others = [f for f in funcs if f["style"] != "method"]

    def fact(f, line):
        facts[f["name"]] = {"line": line, "depth": 1 + block_depth(f["block"]), "style": f["style"],
                            "kinds": sorted(kinds_used(f["block"]))}

    if lang == "py":
        o.emit(0, '"""Generated module%s."""' % NON_ASCII)
        for f in others:
            for _ in range(gap):
                o.emit(0, "")
            # a function may be DEFINED inside any compound statement of the module: the arms of try / if / match, a loop, a with block
            heads = {"else": ["if FLAG_%s:", 1, "pass", 0, "else:"], "except": ["try:", 1, "import fast_%s", 0, "except ImportError:"],
                     "finally": ["try:", 1, "pass", 0, "finally:"], "case": ["match MODE_%s:", 1, "case 1:"], "if": ["if FLAG_%s:"],
                     "with": ["with open_%s():"], "elif": ["if FLAG_%s:", 1, "pass", 0, "elif OTHER_%s:"]}.get(f.get("placed"))
            level = 0
            if heads:
                u = uid()
                for h in heads:
                    if isinstance(h, int):
                        level = h
                    else:
                        o.emit(level, h.replace("%s", u))
                level = 2 if f["placed"] == "case" else 1
            fact(f, o.lineno)
            o.emit(level, "%sdef %s(a, items):" % ("async " if f.get("async") else "", f["name"]))
            _py_block(o, f["block"], level + 1, uid)
        if methods:
            for _ in range(gap):
                o.emit(0, "")
            o.emit(0, "class Holder%s:" % prefix.capitalize())
            for f in methods:
                fact(f, o.lineno)
                o.emit(1, "%sdef %s(self, a, items):" % ("async " if f.get("async") else "", f["name"]))
                _py_block(o, f["block"], 2, uid)
                for _ in range(gap):
                    o.emit(0, "")
    elif lang in ("ts", "js"):
        ty = lang == "ts"
        params = "a: number, items: number[]" if ty else "a, items"
        ret = ": void" if ty else ""
        o.emit(0, "// Generated module" + NON_ASCII)
        for f in others:
            for _ in range(gap):
                o.emit(0, "")
            fact(f, o.lineno)
            _start = len(o.lines)
            if f["style"] == "arrow":
                o.emit(0, "const %s = (%s)%s => {" % (f["name"], params, ret))
                _c_block(o, f["block"], 1, uid, lang)
                o.emit(0, "};")
            elif f["style"] == "wrapped":
                # a callback handed to a wrapper whose result is bound to a name: the function starts one line below that name
                o.emit(0, "const %s = wrapFn(" % f["name"])
                facts[f["name"]]["line"] = o.lineno
                facts[f["name"]]["anonymous"] = True
                o.emit(1, "(%s)%s => {" % (params, ret))
                _c_block(o, f["block"], 2, uid, lang)
                o.emit(1, "},")
                o.emit(1, "300,")
                o.emit(0, ");")
            elif f["style"] == "fexpr":  # function expression bound to a name
                o.emit(0, "const %s = function (%s)%s {" % (f["name"], params, ret))
                _c_block(o, f["block"], 1, uid, lang)
                o.emit(0, "};")
            elif f["style"] == "generator":
                o.emit(0, "function* %s(%s) {" % (f["name"], params))
                _c_block(o, f["block"], 1, uid, lang)
                o.emit(0, "}")
            else:
                o.emit(0, "%sfunction %s(%s)%s {" % ("async " if f.get("async") else "", f["name"], params,
                                                     (": Promise<void>" if ty else "") if f.get("async") else ret))
                _c_block(o, f["block"], 1, uid, lang)
                o.emit(0, "}")
            if f["style"] != "wrapped":
                _compact(o, _start, f.get("layout"))
        if methods:
            for _ in range(gap):
                o.emit(0, "")
            o.emit(0, "class Holder%s {" % prefix.capitalize())
            for f in methods:
                fact(f, o.lineno)
                o.emit(1, "%s(%s)%s {" % (f["name"], params, ret))
                _c_block(o, f["block"], 2, uid, lang)
                o.emit(1, "}")
            o.emit(0, "}")
    elif lang == "rs":
        o.emit(0, "// Generated module" + NON_ASCII)
        for f in others:
            for _ in range(gap):
                o.emit(0, "")
            fact(f, o.lineno)
            _start = len(o.lines)
            o.emit(0, "%sfn %s(a: i32, items: &[i32]) {" % ("async " if f.get("async") else "", f["name"]))
            _c_block(o, f["block"], 1, uid, lang)
            o.emit(0, "}")
            _compact(o, _start, f.get("layout"))
        if methods:
            for _ in range(gap):
                o.emit(0, "")
            o.emit(0, "struct Holder%s;" % prefix.capitalize())
            o.emit(0, "")
            o.emit(0, "impl Holder%s {" % prefix.capitalize())
            for f in methods:
                fact(f, o.lineno)
                o.emit(1, "fn %s(&self, a: i32, items: &[i32]) {" % f["name"])
                _c_block(o, f["block"], 2, uid, lang)
                o.emit(1, "}")
            o.emit(0, "}")
    else:
        raise ValueError(lang)
    return "\n".join(o.lines) + "\n", facts


EXT = {"py": ".py", "ts": ".ts", "js": ".js", "rs": ".rs"}


def syntax_ok(lang: str, text: str) -> bool:
    """Independent syntax check: CPython's ast for py, a bare tree-sitter parse (no thai-lint code) otherwise."""
    if lang == "py":
        import ast

        try:
            ast.parse(text)
            return True
        except SyntaxError:
            return False
    try:
        import tree_sitter

        if lang == "rs":
            import tree_sitter_rust as m

            language = tree_sitter.Language(m.language())
        elif lang == "ts":
            import tree_sitter_typescript as m

            language = tree_sitter.Language(m.language_typescript())
        else:
            try:
                import tree_sitter_javascript as m

                language = tree_sitter.Language(m.language())
            except ImportError:
                import tree_sitter_typescript as m

                language = tree_sitter.Language(m.language_typescript())
        parser = tree_sitter.Parser(language)
        tree = parser.parse(text.encode("utf-8"))
        return not tree.root_node.has_error
    except ImportError:
        return True
