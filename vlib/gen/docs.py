"""Documented examples: fenced code blocks of docs/*-linter.md with their heading path and label, classified as
violating / acceptable / skipped. Reviewed exceptions live in corpus/overrides.json (keyed by doc:line:sha12)."""
from __future__ import annotations

import glob
import hashlib
import json
import os
import re

VIOLATING = re.compile(r"^(before\b|code with violations?|code with duplication|detects|the anti-pattern|anti-pattern)", re.I)
ACCEPTABLE = re.compile(r"^(after\b|refactored|eafp alternative|fixed code|code \(no violation|acceptable pattern|the solution)", re.I)
LANG = {"python": "py", "py": "py", "typescript": "ts", "ts": "ts", "javascript": "js", "js": "js", "rust": "rs"}

# doc file -> (command or "lib:cqs", rule-id prefix, extra config)
DOCS = {
    "blocking-async-linter.md": ("blocking-async", "blocking-async.", {}),
    "clone-abuse-linter.md": ("clone-abuse", "clone-abuse.", {}),
    "unwrap-abuse-linter.md": ("unwrap-abuse", "unwrap-abuse.", {}),
    "collection-pipeline-linter.md": ("pipeline", "collection-pipeline.", {}),
    "cqs-linter.md": ("lib:cqs", "cqs", {}),
    "dry-linter.md": ("dry", "dry.", {"dry": {"enabled": True}}),
    "file-header-linter.md": ("file-header", "file-header.", {}),
    "improper-logging-linter.md": ("improper-logging", "improper-logging.", {}),
    "print-statements-linter.md": ("improper-logging", "improper-logging.", {}),
    "lazy-ignores-linter.md": ("lazy-ignores", "lazy-ignores.", {}),
    "lbyl-linter.md": ("lbyl", "lbyl.", {}),
    "magic-numbers-linter.md": ("magic-numbers", "magic-numbers.", {}),
    "method-property-linter.md": ("method-property", "method-property.", {}),
    "nesting-linter.md": ("nesting", "nesting.", {"nesting": {"max_nesting_depth": 3}}),
    "performance-linter.md": ("perf", "performance.", {}),
    "srp-linter.md": ("srp", "srp.", {}),
    "stateless-class-linter.md": ("stateless-class", "stateless-class.", {}),
    "stringly-typed-linter.md": ("stringly-typed", "stringly-typed.", {}),
}
PATTERN_LINTERS = {"improper-logging", "method-property", "stateless-class", "pipeline", "lbyl", "stringly-typed", "lib:cqs", "perf", "lazy-ignores", "file-header"}
HEADER_BOUND = {"lazy-ignores", "file-header"}


HEADING_ACCEPTABLE = re.compile(r"\(No Violations?\)|^Example \d+: Acceptable", re.I)   # the block's own heading
SECTION_ACCEPTABLE = re.compile(r"^Suppression Declaration Format$", re.I)                  # any enclosing heading
SEC_VIOLATING = re.compile(r"^(#|//)\s*(also\s+)?detected(\s+\(violations\)|\s+patterns\s*$|:)", re.I)
SEC_ACCEPTABLE = re.compile(r"^(#|//)\s*not\s+detected\b", re.I)


def sections(body):
    """A block that starts with a '# Detected ...' comment: -> [(offset of the section's first line, label, class, lines)], or None."""
    first = next((k for k, ln in enumerate(body) if ln.strip()), None)
    if first is None or not SEC_VIOLATING.match(body[first].strip()):
        return None
    marks = [k for k, ln in enumerate(body) if SEC_VIOLATING.match(ln.strip()) or SEC_ACCEPTABLE.match(ln.strip())]
    out = []
    for a, b in zip(marks, marks[1:] + [len(body)]):
        seg = body[a:b]
        while seg and not seg[-1].strip():
            seg = seg[:-1]
        label = seg[0].strip().lstrip("#/ ").strip()
        out.append((a + 1, label, "violating" if SEC_VIOLATING.match(seg[0].strip()) else "acceptable", seg))
    return out


def extract(repo: str):
    rows = []
    for p in sorted(glob.glob(os.path.join(repo, "docs", "*-linter.md"))):
        doc = os.path.basename(p)
        if doc not in DOCS:
            continue
        with open(p, encoding="utf-8") as f:
            lines = f.read().split("\n")
        heads, label, i = [], None, 0
        while i < len(lines):
            ln = lines[i]
            m = re.match(r"^(#{1,6})\s+(.*)", ln)
            if m:
                lvl = len(m.group(1))
                heads = [h for h in heads if h[0] < lvl] + [(lvl, m.group(2).strip())]
                label = None
            elif re.match(r"^\*\*[^*]+\*\*:?\s*$", ln.strip()):
                label = ln.strip().strip("*").strip(":").strip("*").strip().rstrip(":")
            m = re.match(r"^```(\w+)\s*$", ln)
            if m:
                j, body = i + 1, []
                while j < len(lines) and not lines[j].startswith("```"):
                    body.append(lines[j])
                    j += 1
                lang = LANG.get(m.group(1).lower())
                if lang:
                    text = "\n".join(body) + "\n"
                    cls = "violating" if label and VIOLATING.match(label) else "acceptable" if label and ACCEPTABLE.match(label) else "skipped"
                    if cls == "skipped" and heads and (HEADING_ACCEPTABLE.search(heads[-1][1]) or any(SECTION_ACCEPTABLE.search(h[1]) for h in heads)):
                        cls, label = "acceptable", label or heads[-1][1]  # the section exists to show the accepted way of writing it
                    in_refactoring = any("refactoring" in h[1].lower() for h in heads)
                    if cls == "violating" and in_refactoring and label.lower().startswith("before"):
                        cls = "illustrative"  # 'Before' of a refactoring pattern: shown as motivation, not stated to be reported
                    if re.search(r"\.\.\. \d+ more|^\s*(#|//) \.\.\.", text, re.M):
                        cls = "skipped"  # elided code
                    segs = sections(body) if cls == "skipped" else None
                    if segs:
                        # one block, several examples: comment lines say which part is detected and which is not
                        for (off, seg_label, seg_cls, seg_body) in segs:
                            seg_text = "\n".join(seg_body) + "\n"
                            if lang == "rs" and not re.search(r"^\s*(pub\s+)?(async\s+)?fn\s", seg_text, re.M):
                                # bare statements are Rust only inside a function body
                                seg_text = "fn documented_fragment() {\n" + "".join(("    " + ln if ln.strip() else ln) + "\n" for ln in seg_body) + "}\n"
                            rows.append({"doc": doc, "line": i + 1 + off, "lang": lang, "label": seg_label, "heads": [h[1] for h in heads], "class": seg_cls, "text": seg_text,
                                         "sha": hashlib.sha256(seg_text.encode()).hexdigest()[:12]})
                        i = j
                        i += 1
                        continue
                    rows.append({"doc": doc, "line": i + 1, "lang": lang, "label": label, "heads": [h[1] for h in heads], "class": cls, "text": text,
                                 "sha": hashlib.sha256(text.encode()).hexdigest()[:12]})
                i = j
            i += 1
    return rows


def derived_config(row) -> dict:
    """Configuration the doc itself attaches to the example (heading / label)."""
    doc, label, heads = row["doc"], row["label"] or "", " > ".join(row["heads"])
    if doc == "lbyl-linter.md":
        m = re.search(r"`(detect_\w+)`", heads)
        if m:
            return {"lbyl": {m.group(1): True}}
    if doc == "unwrap-abuse-linter.md" and "allow_expect: false" in label + heads:
        return {"unwrap-abuse": {"allow_expect": False}}
    if doc == "nesting-linter.md":
        m = re.search(r"\(depth (\d+)\)", label)
        if m:
            d = int(m.group(1))
            return {"nesting": {"max_nesting_depth": d - 1 if label.lower().startswith("before") else d}}
    return {}


def load_overrides(verif: str) -> dict:
    try:
        with open(os.path.join(verif, "corpus", "overrides.json"), encoding="utf-8") as f:
            return json.load(f)
    except OSError:
        return {}


def key_of(row) -> str:
    return "%s:%d:%s" % (row["doc"], row["line"], row["sha"])
