"""Byte-level and grammar-aware damage for C11 (each mutator: bytes -> bytes, seeded)."""
from __future__ import annotations

import re


def m_empty(b, r): return b""
def m_whitespace(b, r): return r.choice([b" ", b"\n", b"\n\n\n", b"\t\t", b" \r\n \r\n", b"\x0c\n"])
def m_random_bytes(b, r): return bytes(r.randrange(256) for _ in range(r.choice([1, 16, 300, 4000])))
def m_truncate(b, r): return b[: r.randrange(len(b) + 1)] if b else b
def m_truncate_16th(b, r): return b[: len(b) * r.randrange(1, 16) // 16]


def m_bitflip(b, r):
    a = bytearray(b)
    for _ in range(r.choice([1, 3, 20])):
        if a:
            i = r.randrange(len(a))
            a[i] ^= 1 << r.randrange(8)
    return bytes(a)


def m_invalid_utf8(b, r):
    bad = r.choice([b"\x80", b"\xc0\xaf", b"\xed\xa0\x80", b"\xff\xfe", b"\xf8\x88\x80\x80\x80", b"\xe2\x28\xa1"])
    i = r.randrange(len(b) + 1)
    return b[:i] + bad + b[i:]


def m_bom(b, r): return r.choice([b"\xef\xbb\xbf", b"\xff\xfe", b"\xfe\xff"]) + b
def m_utf16(b, r): return b.decode("utf-8", "replace").encode("utf-16")


def m_nul(b, r):
    i = r.randrange(len(b) + 1)
    return b[:i] + b"\x00" * r.choice([1, 5]) + b[i:]


def m_crlf(b, r): return b.replace(b"\n", b"\r\n")
def m_cr(b, r): return b.replace(b"\n", b"\r")


def m_mixed_eol(b, r):
    parts = b.split(b"\n")
    return b"".join(p + r.choice([b"\n", b"\r\n", b"\r"]) for p in parts)


TOK = re.compile(rb"\w+|[^\w\s]|\s+")


def _tokens(b): return TOK.findall(b)


def m_token_delete(b, r):
    t = _tokens(b)
    for _ in range(r.choice([1, 3, 10])):
        if t:
            del t[r.randrange(len(t))]
    return b"".join(t)


def m_token_dup(b, r):
    t = _tokens(b)
    for _ in range(r.choice([1, 3, 10])):
        if t:
            i = r.randrange(len(t))
            t.insert(i, t[i])
    return b"".join(t)


def m_token_swap(b, r):
    t = _tokens(b)
    for _ in range(r.choice([1, 3, 10])):
        if len(t) > 1:
            i, j = r.randrange(len(t)), r.randrange(len(t))
            t[i], t[j] = t[j], t[i]
    return b"".join(t)


def m_bracket_imbalance(b, r):
    ch = r.choice([b"(", b")", b"{", b"}", b"[", b"]"])
    if r.random() < 0.5:
        idx = [i for i in range(len(b)) if b[i:i + 1] == ch]
        if idx:
            i = r.choice(idx)
            return b[:i] + b[i + 1:]
    i = r.randrange(len(b) + 1)
    return b[:i] + ch * r.choice([1, 2, 7]) + b[i:]


def m_unterminated(b, r):
    i = r.randrange(len(b) + 1)
    return b[:i] + r.choice([b'"', b"'", b'"""', b"/*", b"`", b"'''", b"r#\""]) + b[i:]


def m_long_line(b, r):
    n = r.choice([10 ** 4, 10 ** 5, 10 ** 6])
    return b + b"\nx = " + b"a" * n + b"\n"


def m_many_functions(b, r, lang="py"):
    n = r.choice([10 ** 3, 10 ** 4])
    if lang in ("ts", "js"):
        n = 300  # the TypeScript DRY analysis is quadratic in file length (35 s for 1000 one-line functions): slow, not a hang
    if lang == "py":
        return b"".join(b"def f%d(a):\n    return a\n" % i for i in range(n))
    if lang == "rs":
        return b"".join(b"fn f%d(a: i32) -> i32 { a }\n" % i for i in range(n))
    return b"".join(b"function f%d(a) { return a; }\n" % i for i in range(n))


def blowup(lang, kind, depth):
    """Nesting / length blow-ups as stand-alone sources."""
    if kind == "parens":
        expr = b"(" * depth + b"1" + b")" * depth
        return {"py": b"x = " + expr + b"\n", "rs": b"fn f() -> i32 { " + expr + b" }\n"}.get(lang, b"const x = " + expr + b";\n")
    if kind == "brackets":
        expr = b"[" * depth + b"1" + b"]" * depth
        return {"py": b"x = " + expr + b"\n", "rs": b"fn f() { let x = " + expr + b"; }\n"}.get(lang, b"const x = " + expr + b";\n")
    if kind == "blocks":
        if lang == "py":
            return b"def f(a):\n" + b"".join(b"    " * (i + 1) + b"if a:\n" for i in range(depth)) + b"    " * (depth + 1) + b"pass\n"
        head = b"fn f(a: bool) {\n" if lang == "rs" else b"function f(a) {\n"
        cond = b"if a {" if lang == "rs" else b"if (a) {"
        return head + b"\n".join(cond for _ in range(depth)) + b"\nwork();\n" + b"}" * depth + b"\n}\n"
    if kind == "opchain":
        expr = b" + ".join(b"a%d" % i for i in range(depth))
        return {"py": b"x = " + expr + b"\n", "rs": b"fn f() -> i32 { " + expr + b" }\n"}.get(lang, b"const x = " + expr + b";\n")
    if kind == "attrchain":
        expr = b"a" + b"".join(b".b%d()" % i for i in range(depth))
        return {"py": b"x = " + expr + b"\n", "rs": b"fn f() { let x = " + expr + b"; }\n"}.get(lang, b"const x = " + expr + b";\n")
    if kind == "closures" and lang != "py":
        if lang == "rs":
            return b"fn f() { let c = " + b"|| { " * depth + b"1" + b" }" * depth + b"; }\n"
        return b"const c = " + b"() => { return " * depth + b"1" + b"; }" * depth + b";\n"
    if kind == "closures":
        return b"c = " + b"lambda: (" * depth + b"1" + b")" * depth + b"\n"
    raise ValueError(kind)


MUTATORS = {
    "empty": m_empty, "whitespace": m_whitespace, "random-bytes": m_random_bytes, "truncate": m_truncate, "truncate-16th": m_truncate_16th,
    "bitflip": m_bitflip, "invalid-utf8": m_invalid_utf8, "bom": m_bom, "utf16": m_utf16, "nul": m_nul, "crlf": m_crlf, "cr-only": m_cr,
    "mixed-eol": m_mixed_eol, "token-delete": m_token_delete, "token-dup": m_token_dup, "token-swap": m_token_swap,
    "bracket-imbalance": m_bracket_imbalance, "unterminated": m_unterminated, "long-line": m_long_line,
}
