"""Configuration carriers: the same settings dict written as yaml / json / pyproject.toml / --config file."""
from __future__ import annotations

import json

CARRIERS = ["yaml-hyphen", "yaml-underscore", "json-hyphen", "json-underscore", "pyproject-hyphen", "pyproject-underscore",
            "opt-yaml", "opt-json", "group-opt-yaml"]


def respell(cfg: dict, underscore: bool) -> dict:
    return {(k.replace("-", "_") if underscore else k.replace("_", "-") if k not in ("ignore",) else k): v for k, v in cfg.items()}


def toml_value(v):
    if isinstance(v, bool):
        return "true" if v else "false"
    if isinstance(v, (int, float)):
        return repr(v)
    if isinstance(v, str):
        return json.dumps(v)
    if isinstance(v, list):
        return "[" + ", ".join(toml_value(x) for x in v) + "]"
    if isinstance(v, dict):
        return "{ " + ", ".join("%s = %s" % (k if k.replace("_", "").replace("-", "").isalnum() else json.dumps(k), toml_value(x)) for k, x in v.items()) + " }"
    raise TypeError(v)


def to_toml(cfg: dict) -> str:
    out = ["[project]", 'name = "probe"', 'version = "0.0.1"', "", "[tool.thailint]"]
    scalars = {k: v for k, v in cfg.items() if not isinstance(v, dict)}
    tables = {k: v for k, v in cfg.items() if isinstance(v, dict)}
    for k, v in scalars.items():
        out.append("%s = %s" % (k, toml_value(v)))
    for k, v in tables.items():
        out.append("")
        out.append("[tool.thailint.%s]" % (k if k.replace("_", "").replace("-", "").isalnum() else json.dumps(k)))
        sub_tables = {}
        for kk, vv in v.items():
            if isinstance(vv, dict) and all(not isinstance(x, (dict, list)) or isinstance(x, list) for x in vv.values()) and kk in ("python", "typescript", "javascript", "rust"):
                sub_tables[kk] = vv
            else:
                out.append("%s = %s" % (kk, toml_value(vv)))
        for kk, vv in sub_tables.items():
            out.append("")
            out.append("[tool.thailint.%s.%s]" % (k, kk))
            for k3, v3 in vv.items():
                out.append("%s = %s" % (k3, toml_value(v3)))
    return "\n".join(out) + "\n"


def carrier_files(cfg: dict, carrier: str):
    """-> (files dict, extra argv before the command, extra argv after the command)"""
    import yaml
    kind, _, sp = carrier.partition("-")
    if carrier.startswith("opt-") or carrier.startswith("group-opt-"):
        fmt = carrier.rsplit("-", 1)[1]
        name = "custom_cfg.%s" % fmt
        text = yaml.safe_dump(cfg, sort_keys=False) if fmt == "yaml" else json.dumps(cfg, indent=1)
        if carrier.startswith("group-"):
            return {name: text}, ["--config", name], []
        return {name: text}, [], ["--config", name]
    c = respell(cfg, sp == "underscore")
    if kind == "yaml":
        return {".thailint.yaml": yaml.safe_dump(c, sort_keys=False)}, [], []
    if kind == "json":
        return {".thailint.json": json.dumps(c, indent=1)}, [], []
    if kind == "pyproject":
        return {"pyproject.toml": to_toml(c)}, [], []
    raise ValueError(carrier)
