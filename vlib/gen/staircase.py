"""Staircase probe project: constructs straddling every value of each linter's threshold range, so that the set of
flagged constructs decodes the effective threshold. Hand-written, deterministic."""
from __future__ import annotations

from . import ctrl


def files() -> dict:
    out = {}
    # nesting: depth 2..7 in three languages
    for lang in ("py", "ts", "rs"):
        funcs = []
        for d in range(2, 8):
            block = ["S"]
            for i in range(d - 1):
                block = [(["if", "for", "while"][i % 3], [block])]
            funcs.append({"name": "depth_%d" % d, "style": "func", "block": block})
        text, _ = ctrl.render(lang, funcs, prefix="st")
        out["st/nest%s" % ctrl.EXT[lang]] = text
    # srp: classes with k public methods (k = 2..12), LOC grows with k
    py = ['"""Classes."""']
    ts = ["// classes"]
    for k in range(2, 13):
        py += ["", "", "class Bundle%d:" % k]
        ts += ["", "class Bundle%d {" % k]
        for m in range(k):
            py += ["    def act_%d(self, a):" % m, "        return a + %d" % 0]
            ts += ["  act_%d(a: number): number {" % m, "    return a;", "  }"]
        ts += ["}"]
    out["st/cls.py"] = "\n".join(py) + "\n"
    out["st/cls.ts"] = "\n".join(ts) + "\n"
    # magic numbers: graded values and range() bounds
    nums = ['"""Numbers."""', "", "", "def graded(a, items):"]
    for v in (6, 7, 8, 9, 11, 12, 15, 20, 25, 50, 60, 3600):
        nums.append("    a = a + %d" % v)
    for k in (2, 4, 6, 9, 12, 15, 18, 21):
        nums += ["    for i_%d in range(%d):" % (k, k), "        a = a + i_%d" % k]
    for k in (2, 4, 6, 9, 12, 15, 18, 21):
        nums += ["    for j_%d, item_%d in enumerate(items, %d):" % (k, k, k), "        a = a + j_%d" % k]
    for k in (3, 8, 14, 19):
        nums += ["    for m_%d, item_%d in enumerate(items, start=%d):" % (k, k, k), "        a = a + m_%d" % k]
    nums.append("    return a")
    out["st/nums.py"] = "\n".join(nums) + "\n"
    # dry: runs of length 2..7 shared by A and B; runs of length 4 shared by 2, 3, 4 files
    def stmts(tag, n):
        return ["    val_%s_%d = compute_%s_%d(alpha) + offset_%s_%d" % (tag, i, tag, i, tag, i) for i in range(n)]
    fa, fb, fc, fd = (["def fa(alpha):"], ["def fb(alpha):"], ["def fc(alpha):"], ["def fd(alpha):"])
    for L in range(2, 8):
        for f, nm in ((fa, "a"), (fb, "b")):
            f += stmts("run%d" % L, L) + ["    unique_%s_%d = alpha + %d" % (nm, L, L)]
    for mult, group in ((2, (fa, fb)), (3, (fa, fb, fc)), (4, (fa, fb, fc, fd))):
        for i, f in enumerate(group):
            f += stmts("mult%d" % mult, 4) + ["    uniq_m%d_%d = alpha" % (mult, i)]
    for f, nm in ((fa, "a"), (fb, "b"), (fc, "c"), (fd, "d")):
        f.append("    return alpha")
        out["st/dup_%s.py" % nm] = "\n".join(f) + "\n"
    # stringly: the same membership validation in 2, 3, 4 files
    for i in range(4):
        lines = ["def check_%d(mode, kind, tier):" % i]
        lines += ["    if mode in (\"red\", \"green\"):", "        return 1"]                     # 4 files, 2 values
        if i < 3:
            lines += ["    if kind in (\"north\", \"south\", \"east\"):", "        return 2"]     # 3 files, 3 values
        if i < 2:
            lines += ["    if tier in (\"gold\", \"silver\", \"bronze\", \"iron\"):", "        return 3"]  # 2 files, 4 values
        lines += ["    return 0"]
        out["st/str_%d.py" % i] = "\n".join(lines) + "\n"
    # pipeline: loops with 1, 2, 3 continue guards
    pipe = ["def pipes(items):", "    total = 0"]
    for n in (1, 2, 3):
        pipe.append("    for item_%d in items:" % n)
        for g in range(n):
            pipe += ["        if item_%d < %d:" % (n, g), "            continue"]
        pipe.append("        total += item_%d" % n)
    pipe.append("    return total")
    out["st/pipe.py"] = "\n".join(pipe) + "\n"
    # stateless classes with 1..4 methods
    st = []
    for k in range(1, 5):
        st += ["class Plain%d:" % k]
        for m in range(k):
            st += ["    def act_%d(self, a):" % m, "        return a + %d" % m]
        st += ["", ""]
    out["st/stateless.py"] = "\n".join(st) + "\n"
    # method-property: getters whose body has 1..5 statements
    mp = ["class Record:", "    def __init__(self, value):", "        self._value = value", ""]
    for k in range(1, 6):
        mp.append("    def view_%d(self):" % k)
        for s in range(k - 1):
            mp.append("        tmp_%d = self._value" % s)
        mp += ["        return self._value", ""]
    out["st/props.py"] = "\n".join(mp) + "\n"
    # lbyl: one construct per documented detector
    out["st/lbyl.py"] = '''import os


def by_key(data, key):
    if key in data:
        return data[key]
    return None


def by_attr(obj):
    if hasattr(obj, "name"):
        return obj.name
    return None


def by_len(items, idx):
    if len(items) > idx:
        return items[idx]
    return None


def by_file(path):
    if os.path.exists(path):
        return open(path)
    return None


def by_div(x, divisor):
    if divisor != 0:
        return x / divisor
    return 0


def by_digit(text):
    if text.isdigit():
        return int(text)
    return 0
'''
    # lazy-ignores: one suppression per documented pattern switch, plus an orphaned header entry
    out["st/lazy.py"] = '''"""
Purpose: lazy-ignores probe

Suppressions:
    - E999: an entry that no suppression in the code uses (orphaned)
"""
import pytest


def one(a, b):  # noqa: E501
    value: int = a  # type: ignore[assignment]
    other = b  # pylint: disable=invalid-name
    assert a  # nosec B101
    third = a.b  # pyright: ignore[reportAttributeAccessIssue]
    return value + other + third  # thailint: ignore[nesting]


@pytest.mark.skip
def test_skipped():
    pass
'''
    # file-header: a header with only Purpose / Scope / Overview and one temporal word
    out["st/header.py"] = '''"""
Purpose: header probe

Scope: the staircase project

Overview: Shows which fields are mandatory. It is currently a probe.
"""


def header_probe(a):
    return a
'''
    out["st/logs.py"] = '''def report(a):
    print("value", a)
    return a


if __name__ == "__main__":
    print("main block")
'''
    out["st/safe.rs"] = '''pub fn take(opt: Option<i32>, res: Result<i32, String>) -> i32 {
    let a = opt.unwrap();
    let b = res.expect("must be ok");
    a + b
}

pub fn copies(items: &[String], src: String) {
    for item in items {
        let c = item.clone();
        consume(c);
        consume(item);
    }
    let d = src.clone().clone();
    consume(src);
    let e = make();
    let f = e.clone();
    consume(f);
}

pub async fn waits(path: &str) {
    let t = std::fs::read_to_string(path);
    std::thread::sleep(std::time::Duration::from_millis(5));
    let n = std::net::TcpStream::connect("host:80");
}
'''
    # secondary switches and list-valued settings: one construct per documented key
    out["st/extra.py"] = '''"""
Purpose: probes for list-valued and secondary settings

Scope: the staircase project

Overview: One construct per documented key that is not a numeric threshold.
"""
import re

RETRY_LIMIT_MS = 4217
CACHE_PREFIX_KEY = "cache-prefix"


class OrderManager:
    def run(self, a):
        return a


class Gadget:
    def __init__(self, name):
        self._name = name
        self._size = 2

    def get_name(self):
        return self._name

    def size(self):
        return self._size

    def fetch_label(self):
        return self._name

    def to_label(self):
        return self._name

    def finalize(self):
        return self._name


def lbyl_more(x, y, s, obj):
    total = number = ratio = 0
    if isinstance(x, int):
        total = x + 1
    if obj is not None:
        obj.run()
    if s.isdigit():
        number = int(s)
    if y != 0:
        ratio = x / y
    return total, number, ratio


def only_here(flavour):
    if flavour in ("sweet", "sour", "bitter"):
        return 1
    return 0


def phases(engine, phase):
    engine.set_phase("start")
    engine.set_phase("stop")
    engine.set_phase("start")
    if phase == "start":
        return 1
    if phase == "stop":
        return 2
    return 0


def concat(items):
    out = ""
    for item in items:
        out += str(item)
        out += ","
        if re.match("a+", item):
            out += "!"
    return out
'''
    out["st/extra_b.py"] = '''"""
Purpose: second holder of the shared constants

Scope: the staircase project

Overview: Repeats two module constants of st/extra.py.
"""

RETRY_LIMIT_MS = 4217
CACHE_PREFIX_KEY = "cache-prefix"
'''
    out["st/extra_c.py"] = '''"""
Purpose: third holder of one shared constant

Scope: the staircase project

Overview: Repeats one module constant of st/extra.py.
"""

RETRY_LIMIT_MS = 4217
'''
    out["st/extra.ts"] = '''// probes for TypeScript-side switches
export function show(a: number): number {
  console.log(a);
  console.warn(a);
  console.table(a);
  // @ts-ignore
  const b: string = a;
  // eslint-disable-next-line no-console
  console.info(b);
  return a;
}
'''
    out["st/safe_tests.rs"] = '''pub fn plain(v: i32) -> i32 {
    v
}

#[cfg(test)]
mod tests {
    #[test]
    fn takes() {
        let a = Some(1).unwrap();
        let items = vec![String::new()];
        for item in &items {
            let c = item.clone();
            consume(c);
            consume(item);
        }
        consume(a);
    }

    #[tokio::test]
    async fn waits_in_test() {
        let t = std::fs::read_to_string("p");
        consume(t);
    }
}
'''
    return out


# (command, section, key, values ordered from strictest to most permissive)
SWEEPS = [
    ("nesting", "nesting", "max_nesting_depth", [1, 2, 3, 4, 5, 6, 7]),
    ("srp", "srp", "max_methods", [1, 3, 5, 7, 9, 12]),
    ("srp", "srp", "max_loc", [5, 10, 15, 20, 40]),
    ("magic-numbers", "magic-numbers", "max_small_integer", [1, 3, 5, 10, 16, 20]),
    ("magic-numbers", "magic-numbers", "allowed_numbers", [[0, 1], [0, 1, 6, 7], [0, 1, 6, 7, 8, 9, 11, 12], [0, 1, 6, 7, 8, 9, 11, 12, 15, 20, 25, 50, 60, 3600]]),
    ("dry", "dry", "min_duplicate_lines", [2, 3, 4, 5, 6, 7]),
    ("dry", "dry", "min_occurrences", [2, 3, 4]),
    ("stringly-typed", "stringly-typed", "min_occurrences", [2, 3, 4]),
    ("stringly-typed", "stringly-typed", "min_values_for_enum", [2, 3, 4]),
    ("pipeline", "collection-pipeline", "min_continues", [1, 2, 3]),
    ("stateless-class", "stateless-class", "min_methods", [1, 2, 3, 4]),
    ("method-property", "method-property", "max_body_statements", [5, 4, 3, 2, 1]),
    ("lbyl", "lbyl", "detect_dict_key", [True, False]),
    ("lbyl", "lbyl", "detect_hasattr", [True, False]),
    ("lbyl", "lbyl", "detect_len_check", [True, False]),
    ("lbyl", "lbyl", "detect_file_exists", [True, False]),
    ("improper-logging", "improper-logging", "allow_in_scripts", [False, True]),
    ("lazy-ignores", "lazy-ignores", "check_noqa", [True, False]),
    ("lazy-ignores", "lazy-ignores", "check_type_ignore", [True, False]),
    ("lazy-ignores", "lazy-ignores", "check_pylint_disable", [True, False]),
    ("lazy-ignores", "lazy-ignores", "check_nosec", [True, False]),
    ("lazy-ignores", "lazy-ignores", "check_pyright_ignore", [True, False]),
    ("lazy-ignores", "lazy-ignores", "check_thailint_ignore", [True, False]),
    ("lazy-ignores", "lazy-ignores", "check_test_skips", [True, False]),
    ("lazy-ignores", "lazy-ignores", "check_orphaned", [True, False]),
    ("file-header", "file-header", "mandatory_fields", [["Purpose", "Scope", "Overview", "Zebra"], ["Purpose", "Scope", "Overview"], ["Purpose"]]),
    ("file-header", "file-header", "check_atemporal", [True, False]),
    ("file-header", "file-header", "recommended_fields", [["Zebra", "Exports"], []]),
    ("pipeline", "collection-pipeline", "suggest_filter", [False, True]),
    ("pipeline", "collection-pipeline", "suggest_comprehension", [False, True]),
    ("unwrap-abuse", "unwrap-abuse", "allow_expect", [False, True]),
    ("blocking-async", "blocking-async", "detect_net_in_async", [True, False]),
    ("clone-abuse", "clone-abuse", "detect_unnecessary_clone", [True, False]),
    ("clone-abuse", "clone-abuse", "detect_clone_in_loop", [True, False]),
    ("clone-abuse", "clone-abuse", "detect_clone_chain", [True, False]),
    ("blocking-async", "blocking-async", "detect_sleep_in_async", [True, False]),
    ("blocking-async", "blocking-async", "detect_fs_in_async", [True, False]),
    # the remaining documented keys (docs/<linter>-linter.md option tables and docs/configuration.md), dotted = nested sub-section
    ("lbyl", "lbyl", "detect_isinstance", [True, False]),
    ("lbyl", "lbyl", "detect_none_check", [True, False]),
    ("lbyl", "lbyl", "detect_string_validation", [True, False]),
    ("lbyl", "lbyl", "detect_division_check", [True, False]),
    ("srp", "srp", "check_keywords", [True, False]),
    ("srp", "srp", "keywords", [["Manager", "Gadget"], ["Manager"], ["Zebra"]]),
    ("srp", "srp", "max_responsibility_score", [1, 5, 50]),
    ("dry", "dry", "detect_duplicate_constants", [True, False]),
    ("dry", "dry", "min_duplicate_tokens", [1, 30, 500]),
    ("stringly-typed", "stringly-typed", "max_values_for_enum", [6, 3, 2]),
    ("stringly-typed", "stringly-typed", "require_cross_file", [False, True]),
    ("stringly-typed", "stringly-typed", "allowed_string_sets", [[], [["red", "green"]], [["red", "green"], ["north", "south", "east"]]]),
    ("stringly-typed", "stringly-typed", "exclude_variables", [[], ["mode"], ["mode", "kind", "tier"]]),
    ("method-property", "method-property", "ignore_methods", [[], ["get_name"], ["get_name", "size", "fetch_label"]]),
    ("method-property", "method-property", "exclude_names", [[], ["size"]]),
    ("method-property", "method-property", "exclude_prefixes", [[], ["fetch_"], ["fetch_", "get_", "view_"]]),
    ("method-property", "method-property", "exclude_prefixes_override", [[], ["zz_"], ["to_"], ["to_", "get_", "fetch_", "view_"]]),
    ("method-property", "method-property", "exclude_names_override", [[], ["zz"], ["finalize"], ["finalize", "size"]]),
    ("improper-logging", "improper-logging", "console_methods", [["log", "warn", "error", "debug", "info", "table"], ["log", "warn"], ["log"]]),
    ("lazy-ignores", "lazy-ignores", "check_ts_ignore", [True, False]),
    ("lazy-ignores", "lazy-ignores", "check_eslint_disable", [True, False]),
    ("lazy-ignores", "lazy-ignores", "ignore_patterns", [[], ["st/lazy.py"], ["st/**"]]),
    ("unwrap-abuse", "unwrap-abuse", "allow_in_tests", [False, True]),
    ("clone-abuse", "clone-abuse", "allow_in_tests", [False, True]),
    ("blocking-async", "blocking-async", "allow_in_tests", [False, True]),
    # the alternative section names (the one `thailint init-config` writes for the pipeline linter; the alias of improper-logging)
    ("pipeline", "pipeline", "min_continues", [1, 2, 3]),
    ("improper-logging", "print-statements", "allow_in_scripts", [False, True]),
    ("perf", "performance", "string-concat-loop.enabled", [True, False]),
    ("perf", "performance", "regex-in-loop.enabled", [True, False]),
    ("perf", "performance", "string-concat-loop.report_each_concat", [True, False]),
]

# construct families a setting is documented to govern: the sweep must move the verdicts of EACH family (a line pattern or a file extension)
FAMILIES = {
    ("magic-numbers", "max_small_integer"): {"range()": r"\brange\(", "enumerate()": r"\benumerate\("},
    ("nesting", "max_nesting_depth"): {"python": ".py", "typescript": ".ts", "rust": ".rs"},
    ("srp", "max_methods"): {"python": ".py", "typescript": ".ts"},
    ("srp", "max_loc"): {"python": ".py", "typescript": ".ts"},
}

# settings whose documented effect is the wording of a finding or an extra notice at the same place
MESSAGE_LEVEL = {"recommended_fields", "suggest_filter", "suggest_comprehension"}

# documented configuration section of every command (for enabled: false)
SECTIONS = {
    "nesting": "nesting", "srp": "srp", "dry": "dry", "magic-numbers": "magic-numbers", "stringly-typed": "stringly-typed",
    "file-placement": "file-placement", "improper-logging": "improper-logging", "print-statements": "print-statements",
    "method-property": "method-property", "stateless-class": "stateless-class", "lazy-ignores": "lazy-ignores", "lbyl": "lbyl",
    "file-header": "file-header", "pipeline": "collection-pipeline", "perf": "performance", "string-concat-loop": "performance",
    "regex-in-loop": "performance", "unwrap-abuse": "unwrap-abuse", "clone-abuse": "clone-abuse", "blocking-async": "blocking-async",
}
