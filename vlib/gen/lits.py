"""Programs with numeric literals in known positions (ground truth for C02 / C12).

Every occurrence is recorded as {"line", "value" (python number), "text" (lexical form), "cat": category}.
Categories: "plain" (must be reported unless allowed), exempt categories ("const", "range", "enumerate", "strrep",
"enum", "test-fn", "test-mod"), and "decoy" lines (no numeric literal at all).
One literal per line, so (line, value) identifies an occurrence.
"""
from __future__ import annotations

# header comments end in non-ASCII text: from there on byte offsets and character offsets differ (Latin-1 supplement, Thai, CJK, astral plane)
NON_ASCII = " \u2014 g\u00e9n\u00e9r\u00e9 \u0e2a\u0e23\u0e49\u0e32\u0e07 \u751f\u6210 \U0001f600"

INT_POOL = [7, 12, 13, 17, 23, 37, 42, 60, 64, 99, 128, 255, 256, 360, 404, 500, 512, 1024, 3600, 4096, 8080, 65535, 86400, 123456]
SMALL = [0, 1, 2, 3, 4, 5, 6, 8, 9, 10, 11, 15, 20, 21]
FLOATS = ["1.5", "2.75", "0.25", "3.14159", "99.9", "2.5e-3", "6.02e23", "0.001", "0.0",
          # magnitudes at which a formatter switches notation or runs out of digits
          "2.5e-7", "1e-9", "1.5e-6", "1e-12", "0.00001234", "4.2e+15", "1e21", "123456789.125", "1e16", "9007199254740993.0"]


BOUNDARY = [0, 0, 1, 2, 3, 4, 5, 10, 100, 1000]  # the values of the default allowed list (zero twice: it is falsy as well)


def _fresh(rng, used):
    if rng.random() < 0.12:
        return rng.choice(BOUNDARY)  # ordinary literals of these values are judged by allowed_numbers like any other (a setting may leave them out)
    for _ in range(200):
        v = rng.choice(INT_POOL) if rng.random() < 0.5 else rng.randint(6, 99999)
        if v not in used:
            used.add(v)
            return v
    v = max(used) + 1
    used.add(v)
    return v


def _recase(rng, text, prefix_too=True):
    """Letter case is free in numeric literals: 0XFE, 0xfe, 0Xfe, 0B101, 0O17, 2.5E-3 (Rust: digits only, the prefix is lower case)."""
    r = rng.random()
    if r < 0.45:
        return text
    if r < 0.7:
        return (text[:2].upper() + text[2:]) if prefix_too and text[:2].lower() in ("0x", "0o", "0b") else text.replace("e", "E") if text[:2].lower() != "0x" else text
    if text[:2].lower() in ("0x", "0o", "0b"):
        return (text[:2].upper() if prefix_too and r < 0.85 else text[:2]) + text[2:].upper()
    return text.replace("e", "E")


def py_literal(rng, used, forms=True):
    """-> (text, value)"""
    r = rng.random()
    if not forms or r < 0.55:
        v = _fresh(rng, used)
        return str(v), v
    if r < 0.7:
        t = rng.choice(FLOATS)
        return _recase(rng, t), float(t)
    v = _fresh(rng, used)
    if r < 0.8:
        return _recase(rng, hex(v)), v
    if r < 0.85:
        return _recase(rng, oct(v)), v
    if r < 0.9:
        return _recase(rng, bin(v)), v
    if v >= 1000:
        s = str(v)
        return s[:-3] + "_" + s[-3:], v
    return str(v), v


class Builder:
    def __init__(self):
        self.lines = []
        self.occ = []

    def add(self, text, value=None, lit=None, cat=None):
        self.lines.append(text)
        if cat:
            self.occ.append({"line": len(self.lines), "value": value, "text": lit, "cat": cat,
                             "neg": bool(lit) and ("-" + lit) in text})

    def text(self):
        return "\n".join(self.lines) + "\n"


PY_PLAIN = [
    "{i}val_{n} = {lit}",
    "{i}work_{n}({lit})",
    "{i}work_{n}(a, size={lit})",
    "{i}val_{n} = [a, {lit}]",
    "{i}val_{n} = (a, {lit})",
    "{i}val_{n} = {{'key_{n}': {lit}}}",
    "{i}val_{n} = {{a, {lit}}}",
    "{i}val_{n} = items[{lit}]",
    "{i}val_{n} = (a + {lit}) * a",
    "{i}val_{n} = a if a > {lit} else a",
    "{i}val_{n} = work_{n}(work_{n}(a, {lit}))",
    "{i}val_{n} = a.attr_{n}.method({lit})",
    "{i}val_{n} = [x for x in items if x > {lit}]",
    "{i}val_{n} = lambda x: x + {lit}",
    "{i}assert a != {lit}",
    "{i}val_{n} = -{lit}",
    "{i}work_{n}(a, -{lit})",
]


def gen_py(rng, n_items=30, max_small=10, forms=True):
    b = Builder()
    used = set()
    n = [0]

    def nx():
        n[0] += 1
        return n[0]
    b.add('"""Generated literals module%s."""' % NON_ASCII)
    b.add("import os")
    b.add("from typing import Final")
    b.add("")
    # module-level constants (exempt), keep < 4 so the file is not a constants-definition module
    for _ in range(rng.randint(0, 3)):
        t, v = py_literal(rng, used, forms)
        cname = rng.choice(["LIMIT_%d", "_PRIVATE_LIMIT_%d", "MAX2_RETRIES_%d", "__DUNDERISH_%d", "TIMEOUT_%d_SECONDS"]) % nx()
        # every way of writing an UPPER_CASE constant definition: plain, negative, annotated
        form = rng.choice(["%s = %s", "%s = %s", "%s = -%s", "%s: int = %s", "%s: Final = %s", "%s = 1 * %s", "%s = -(%s + 1)"])
        b.add(form % (cname, t), v, t, "const")
    if rng.random() < 0.4:
        t, v = py_literal(rng, used, forms)
        b.add("")
        b.add("")
        b.add("class Settings_%d:" % nx())
        b.add("    CLASS_LIMIT_%d = %s" % (nx(), t), v, t, "const")
    b.add("")
    b.add("")
    b.add("def func_main(a, items):")
    ind = "    "
    for _ in range(n_items):
        r = rng.random()
        k = nx()
        if r < 0.5:
            t, v = py_literal(rng, used, forms)
            b.add(rng.choice(PY_PLAIN).format(i=ind, n=k, lit=t), v, t, "plain")
        elif r < 0.58:
            v = rng.choice(SMALL + [rng.randint(0, 25)])
            cat = "range" if 0 <= v <= max_small else "plain"
            b.add(rng.choice(["%sfor idx_%d in range(%d):", "%sfor idx_%d in range(a, %d):", "%sfor idx_%d in reversed(range(%d)):", "%sfor idx_%d in list(range(%d)):"]) % (ind, k, v), v, str(v), cat)
            b.add("%s    work_%d(idx_%d)" % (ind, k, k))
        elif r < 0.64:
            v = rng.choice(SMALL + [rng.randint(0, 25)])
            cat = "enumerate" if 0 <= v <= max_small else "plain"
            b.add(rng.choice(["%sfor idx_%d, item_%d in enumerate(items, %d):", "%sfor idx_%d, item_%d in enumerate(items, start=%d):"]) % (ind, k, k, v), v, str(v), cat)
            b.add("%s    work_%d(idx_%d, item_%d)" % (ind, k, k, k))
        elif r < 0.7:
            v = _fresh(rng, used)
            b.add(rng.choice(["%sbanner_%d = \"-\" * %d", "%sbanner_%d = %d * \"=\"", "%sbanner_%d = 'ab' * %d"]) % (ind, k, v), v, str(v), "strrep")
        elif r < 0.75:
            t, v = py_literal(rng, used, forms)
            b.add("%sif a > %s:" % (ind, t), v, t, "plain")
            b.add("%s    work_%d(a)" % (ind, k))
        elif r < 0.8:
            t, v = py_literal(rng, used, forms)
            b.add("%sdef inner_%d(x, y=%s):" % (ind, k, t), v, t, "plain")
            t2, v2 = py_literal(rng, used, forms)
            b.add("%s    return x + %s" % (ind, t2), v2, t2, "plain")
        elif r < 0.85:
            b.add("%sclass Local_%d:" % (ind, k))
            t, v = py_literal(rng, used, forms)
            b.add("%s    def meth(self):" % ind)
            b.add("%s        return self.x * %s" % (ind, t), v, t, "plain")
        elif r < 0.9:
            t, v = py_literal(rng, used, forms)
            b.add("%sval_%d = work_%d(" % (ind, k, k))
            b.add("%s    a," % ind)
            b.add("%s    %s," % (ind, t), v, t, "plain")
            b.add("%s)" % ind)
        else:
            b.add(rng.choice([
                "%sflag_%d = True" % (ind, k), "%sflag_%d = False" % (ind, k), "%sname_%d = \"v2 build 37\"" % (ind, k),
                "%sx%d = a" % (ind, k), "%snothing_%d = None" % (ind, k), "%s# note %d: 42 in a comment" % (ind, k),
                "%stext_%d = f\"{a} of 100\"" % (ind, k), "%sif a is True:\n%s    work_%d(a)" % (ind, ind, k)]), cat="decoy")
            if "\n" in b.lines[-1]:
                first, second = b.lines[-1].split("\n")
                b.lines[-1] = first
                b.lines.append(second)
    t, v = py_literal(rng, used, forms)
    b.add("%sreturn %s" % (ind, t), v, t, "plain")
    return b.text(), b.occ


TS_PLAIN = [
    "{i}let val_{n} = {lit};",
    "{i}work_{n}({lit});",
    "{i}const val_{n} = [a, {lit}];",
    "{i}const val_{n} = {{ key_{n}: {lit} }};",
    "{i}const val_{n} = items[{lit}];",
    "{i}const val_{n} = (a + {lit}) * a;",
    "{i}const val_{n} = a > {lit} ? a : a;",
    "{i}const val_{n} = work_{n}(work_{n}(a, {lit}));",
    "{i}const val_{n} = items.filter((x) => x > {lit});",
    "{i}const val_{n} = -{lit};",
    "{i}switch (a) {{ case {lit}: work_{n}(a); }}",
    "{i}const val_{n} = `${{a * {lit}}} of many`;",
    "{i}const val_{n} = a ?? {lit};",
    "{i}const val_{n} = [...items, {lit}];",
    "{i}for (let i_{n} = a; i_{n} < {lit}; i_{n}++) {{ work_{n}(i_{n}); }}",
    "{i}const val_{n} = class {{ field_{n} = {lit}; }};",
    "{i}const val_{n} = function (x = {lit}) {{ return x; }};",
]


def ts_literal(rng, used, forms=True):
    r = rng.random()
    if not forms or r < 0.6:
        v = _fresh(rng, used)
        return str(v), v
    if r < 0.75:
        t = rng.choice(["1.5", "2.75", "0.25", "3.14159", "99.9", "2.5e-3", "0.001", "1e3", ".5", "2.5e-7", "1e-9", "1.5e-6", "4.2e+15", "1e21", "123456789.125"])
        return _recase(rng, t), float(t)
    v = _fresh(rng, used)
    if r < 0.85:
        h = _recase(rng, hex(v))
        return h + ("n" if rng.random() < 0.1 else ""), v
    if r < 0.9:
        return _recase(rng, "0o%o" % v), v
    if r < 0.93:
        return _recase(rng, bin(v)), v
    if r < 0.96:
        return "%dn" % v, v
    if v >= 1000:
        s = str(v)
        return s[:-3] + "_" + s[-3:], v
    return str(v), v


def gen_ts(rng, n_items=25, js=False, forms=True):
    b = Builder()
    used = set()
    n = [0]

    def nx():
        n[0] += 1
        return n[0]
    ty = (lambda s: "") if js else (lambda s: s)
    b.add("// Generated literals module" + NON_ASCII)
    for _ in range(rng.randint(0, 3)):
        t, v = ts_literal(rng, used, forms)
        b.add(rng.choice(["const %s = %s;", "const %s = -%s;", "export const %s = %s;", "const %s = 1 * %s;", "const %s = 2 * 3 * %s;", "const %s = (%s + 1) * 2;"] + ([] if js else ["const %s: number = %s;", "const %s = %s as const;"]))
              % (rng.choice(["LIMIT_%d", "_PRIVATE_LIMIT_%d", "MAX2_RETRIES_%d"]) % nx(), t), v, t, "const")
    if not js and rng.random() < 0.7:
        b.add("enum Level_%d {" % nx())
        for name in ("Low", "Mid", "High"):
            t, v = ts_literal(rng, used, False)
            b.add("  %s = %s," % (name, t), v, t, "enum")
        b.add("}")
    b.add("")
    b.add("function funcMain(a%s, items%s)%s {" % (ty(": number"), ty(": number[]"), ty(": number")))
    ind = "  "
    for _ in range(n_items):
        r = rng.random()
        k = nx()
        if r < 0.7:
            t, v = ts_literal(rng, used, forms)
            b.add(rng.choice(TS_PLAIN).format(i=ind, n=k, lit=t), v, t, "plain")
        elif r < 0.78:
            t, v = ts_literal(rng, used, forms)
            b.add("%sif (a > %s) {" % (ind, t), v, t, "plain")
            b.add("%s  work_%d(a);" % (ind, k))
            b.add("%s}" % ind)
        elif r < 0.84:
            t, v = ts_literal(rng, used, forms)
            b.add("%sconst inner_%d = (x%s, y%s = %s)%s => {" % (ind, k, ty(": number"), ty(": number"), t, ty(": number")), v, t, "plain")
            t2, v2 = ts_literal(rng, used, forms)
            b.add("%s  return x + %s;" % (ind, t2), v2, t2, "plain")
            b.add("%s};" % ind)
        elif r < 0.9:
            t, v = ts_literal(rng, used, forms)
            b.add("%sconst val_%d = work_%d(" % (ind, k, k))
            b.add("%s  a," % ind)
            b.add("%s  %s," % (ind, t), v, t, "plain")
            b.add("%s);" % ind)
        else:
            b.add(rng.choice([
                "%sconst flag_%d = true;" % (ind, k), "%sconst flag_%d = false;" % (ind, k), "%sconst name_%d = \"v2 build 37\";" % (ind, k),
                "%sconst x%d = a;" % (ind, k), "%sconst nothing_%d = null;" % (ind, k), "%s// note %d: 42 in a comment" % (ind, k),
                "%sconst text_%d = `${a} of 100`;" % (ind, k), "%sconst re_%d = /a{37}b/;" % (ind, k),
                "%slabel4997_%d: for (const it of items) { if (it) break label4997_%d; }" % (ind, k, k)]), cat="decoy")
    t, v = ts_literal(rng, used, forms)
    b.add("%sreturn %s;" % (ind, t), v, t, "plain")
    b.add("}")
    return b.text(), b.occ


RS_PLAIN = [
    "{i}let val_{n} = {lit};",
    "{i}work_{n}({lit});",
    "{i}let val_{n} = [a, {lit}];",
    "{i}let val_{n} = items[{lit}];",
    "{i}let val_{n} = (a + {lit}) * a;",
    "{i}let val_{n} = if a > {lit} {{ a }} else {{ a }};",
    "{i}let val_{n} = work_{n}(work_{n}(a, {lit}));",
    "{i}let val_{n} = items.iter().filter(|x| **x > {lit}).count();",
    "{i}let val_{n} = -{lit};",
    "{i}let val_{n} = match a {{ {lit} => a, _ => a }};",
    "{i}for i_{n} in a..{lit} {{ work_{n}(i_{n}); }}",
    "{i}let val_{n} = vec![a; {lit}];",
    "{i}println!(\"{{}} {{}}\", {lit}, a);",
    "{i}let val_{n} = Holder_{n} {{ field: {lit} }};",
    "{i}let val_{n} = {lit} as f64;",
    "{i}if let Some({lit}) = Some(a) {{ work_{n}(a); }}",
    "{i}let val_{n} = a.pow({lit});",
]


def rs_literal(rng, used, forms=True):
    r = rng.random()
    if not forms or r < 0.55:
        v = _fresh(rng, used)
        return str(v), v
    if r < 0.68:
        t = rng.choice(["1.5", "2.75", "0.25", "3.14159", "99.9", "0.001", "2.5e-7", "1e-9", "1.5e-6", "4.2e15", "123456789.125"])
        return t, float(t)
    v = _fresh(rng, used)
    if r < 0.76:
        # the documented spellings: 1024usize and 100_i32 (separator before the suffix), separators inside the digits
        digits = str(v) if v < 1000 or rng.random() < 0.5 else str(v)[:-3] + "_" + str(v)[-3:]
        return "%s%s%s" % (digits, rng.choice(["", "_"]), rng.choice(["u32", "i64", "usize", "u64"])), v
    if r < 0.82:
        t = rng.choice(["2.5", "7.25"])
        return t + rng.choice(["", "_"]) + rng.choice(["f32", "f64"]), float(t)
    if r < 0.88:
        return _recase(rng, hex(v), prefix_too=False), v
    if r < 0.91:
        h = rng.choice(["0x1f32", "0xaf64", "0x2f32", "0xbeef64", "0x7f32"])
        used.add(int(h, 16))
        return h, int(h, 16)
    if r < 0.94:
        return "0o%o" % v, v
    if v >= 1000:
        s = str(v)
        return s[:-3] + "_" + s[-3:], v
    return str(v), v


def gen_rs(rng, n_items=25, forms=True):
    b = Builder()
    used = set()
    n = [0]

    def nx():
        n[0] += 1
        return n[0]
    b.add("// Generated literals module" + NON_ASCII)
    for _ in range(rng.randint(0, 3)):
        t, v = rs_literal(rng, used, False)
        kind = rng.choice(["const", "static"])
        b.add("%s%s %s: i64 = %s%s;" % (rng.choice(["", "pub ", "pub(crate) "]), kind, rng.choice(["LIMIT_%d", "_PRIVATE_LIMIT_%d", "MAX2_RETRIES_%d"]) % nx(), rng.choice(["", "", "-", "60 * ", "2 * 3 * "]), t), v, t, "const")
    b.add("")
    b.add("fn func_main(a: i64, items: &[i64]) -> i64 {")
    ind = "    "
    for _ in range(n_items):
        r = rng.random()
        k = nx()
        if r < 0.75:
            t, v = rs_literal(rng, used, forms)
            b.add(rng.choice(RS_PLAIN).format(i=ind, n=k, lit=t), v, t, "plain")
        elif r < 0.85:
            t, v = rs_literal(rng, used, forms)
            b.add("%sif a > %s {" % (ind, t), v, t, "plain")
            b.add("%s    work_%d(a);" % (ind, k))
            b.add("%s}" % ind)
        elif r < 0.92:
            t, v = rs_literal(rng, used, forms)
            b.add("%slet val_%d = work_%d(" % (ind, k, k))
            b.add("%s    a," % ind)
            b.add("%s    %s," % (ind, t), v, t, "plain")
            b.add("%s);" % ind)
        else:
            b.add(rng.choice([
                "%slet flag_%d = true;" % (ind, k), "%slet name_%d = \"v2 build 37\";" % (ind, k), "%slet raw_%d = r#\"raw 4998\"#;" % (ind, k),
                "%slet ch_%d = '7';" % (ind, k), "%slet by_%d = b'9';" % (ind, k), "%slet life_%d: &'static str = \"x86\";" % (ind, k),
                "%slet x%d = a;" % (ind, k), "%s// note %d: 42 in a comment" % (ind, k)]), cat="decoy")
    t, v = rs_literal(rng, used, False)
    b.add("%s%s" % (ind, t), v, t, "plain")
    b.add("}")
    if rng.random() < 0.5:
        # production code whose attribute merely mentions test; a decimal literal written with leading zeros (0755 is 755 in Rust)
        b.add("")
        b.add(rng.choice(["#[cfg_attr(test, allow(dead_code))]", "#[cfg_attr(test, derive(Debug))]", "#[cfg(not(test))]", "#[doc = \"test helper, used in production\"]"]))
        b.add("fn production_%d() -> i64 {" % nx())
        t, v = rs_literal(rng, used, False)
        b.add("    let kept = %s;" % t, v, t, "plain")
        v2 = _fresh(rng, used)
        b.add("    let mode = 0%d;" % v2, v2, "0%d" % v2, "plain")
        b.add("    kept + mode")
        b.add("}")
    if rng.random() < 0.7:
        b.add("")
        b.add("#[test]")
        b.add("fn check_values_%d() {" % nx())
        t, v = rs_literal(rng, used, False)
        b.add("    assert_eq!(func_main(%s, &[]), 0);" % t, v, t, "test-fn")
        b.add("}")
    if rng.random() < 0.7:
        b.add("")
        b.add("#[cfg(test)]")
        b.add("mod checks_%d {" % nx())
        b.add("    fn helper() -> i64 {")
        t, v = rs_literal(rng, used, False)
        b.add("        %s" % t, v, t, "test-mod")
        b.add("    }")
        b.add("}")
    return b.text(), b.occ
