"""Execution boundaries for the runtime monitors.

B-CLI/zygote : cli()       - fork of a warm parent, runs the real click entry point in the child
B-CLI/real   : cli_real()  - the installed console script in a fresh interpreter
B-LIB        : call()      - run a python callable against the real library in a forked child
pmap()       : fork-per-item parallel map (16 lanes), crash/timeout contained per item

Everything here is harness; the code under test is whatever is importable as `src` from
$VERIF_REPO (default /repo), which is placed first on sys.path / PYTHONPATH.
"""
from __future__ import annotations

import io
import json
import os
import select
import shutil
import signal
import subprocess
import sys
import time
import traceback

REPO = os.path.abspath(os.environ.get("VERIF_REPO", "/repo"))
VERIF = os.path.dirname(os.path.dirname(os.path.abspath(__file__)))
THAILINT_BIN = "/venv/bin/thailint"
NCPU = int(os.environ.get("VERIF_JOBS", "0") or 0) or min(16, os.cpu_count() or 4)

_state = {"warm": False, "scratch": None, "counter": 0, "owner": None}


# ----------------------------------------------------------------------------- scratch
def scratch_base() -> str:
    """Per-run scratch directory outside /repo and /verif (digits only: no 'test'/'build' substrings)."""
    if _state["scratch"] is None:
        root = os.environ.get("VERIF_SCRATCH", "/tmp")
        base = os.path.join(root, "vf%d" % os.getpid())
        n = 0
        while os.path.exists(base):
            n += 1
            base = os.path.join(root, "vf%d-%d" % (os.getpid(), n))
        os.makedirs(os.path.join(base, "home"))
        os.makedirs(os.path.join(base, "tmp"))
        os.makedirs(os.path.join(base, "zyg"))
        os.makedirs(os.path.join(base, "p"))
        _state["scratch"] = base
        _state["owner"] = os.getpid()
    return _state["scratch"]


def cleanup_scratch() -> None:
    if _state["scratch"] and _state["owner"] == os.getpid():
        shutil.rmtree(_state["scratch"], ignore_errors=True)
        _state["scratch"] = None


def new_dir(tag: str = "") -> str:
    """A fresh unique directory. Safe to call in forked children (pid is part of the name)."""
    parent = os.path.join(scratch_base(), "p")
    os.makedirs(parent, exist_ok=True)
    while True:  # pids are reused over a long run (thorough tiers fork >32k children): never trust pid+counter alone
        _state["counter"] += 1
        d = os.path.join(parent, "%s%d-%d" % (tag, os.getpid(), _state["counter"]))
        try:
            os.mkdir(d)
            return d
        except FileExistsError:
            continue


def write_tree(root: str, files: dict, git_marker: bool = True) -> None:
    """Materialise {relpath: str|bytes} under root. A `.git/` directory marks the project root."""
    os.makedirs(root, exist_ok=True)
    if git_marker:
        os.makedirs(os.path.join(root, ".git"), exist_ok=True)
    for rel, content in files.items():
        p = os.path.join(root, rel)
        os.makedirs(os.path.dirname(p) or root, exist_ok=True)
        if isinstance(content, str):
            with open(p, "w", encoding="utf-8", newline="") as f:
                f.write(content)
        else:
            with open(p, "wb") as f:
                f.write(content)


# ----------------------------------------------------------------------------- zygote
def base_env() -> dict:
    sb = scratch_base()
    return {
        "PATH": "/venv/bin:/usr/local/bin:/usr/bin:/bin",
        "HOME": os.path.join(sb, "home"),
        "XDG_CONFIG_HOME": os.path.join(sb, "home", ".config"),
        "TMPDIR": os.path.join(sb, "tmp"),
        "LANG": "C.UTF-8",
        "LC_ALL": "C.UTF-8",
        "THAILINT_VERIF": "1",
        "PYTHONPATH": REPO,
        "PYTHONHASHSEED": os.environ.get("PYTHONHASHSEED", "0"),
        "NO_COLOR": "1",
    }


def warm() -> None:
    """Import the CLI and every linter package once in this process (the zygote)."""
    if _state["warm"]:
        return
    sb = scratch_base()
    for k, v in base_env().items():
        if k not in ("PYTHONPATH", "PYTHONHASHSEED"):
            os.environ[k] = v
    os.environ["PYTHONPATH"] = REPO
    if sys.path[0] != REPO:
        sys.path.insert(0, REPO)
    cwd0 = os.getcwd()
    os.chdir(os.path.join(sb, "zyg"))  # src/config.py captures cwd at import time
    try:
        import src.cli_main  # noqa: F401
        import src.api  # noqa: F401
        from src.core import rule_discovery

        rule_discovery.discover_from_package("src.linters")
        srcfile = os.path.abspath(src.cli_main.__file__)
        if not srcfile.startswith(REPO + os.sep):
            raise RuntimeError("imported src from %s, expected under %s" % (srcfile, REPO))
    finally:
        os.chdir(cwd0)
    _state["warm"] = True


# ----------------------------------------------------------------------------- results
class Result(dict):
    """exit, out, err, swallowed(list), wall, signal, timeout"""

    @property
    def exit(self):
        return self.get("exit")

    @property
    def out(self) -> str:
        return self.get("out", "")

    @property
    def err(self) -> str:
        return self.get("err", "")

    def json(self):
        """Parsed --format json document, or None if stdout is not valid JSON."""
        try:
            return json.loads(self.out)
        except (ValueError, TypeError):
            return None

    def violations(self):
        """List of violation dicts from --format json output (None when unparsable)."""
        doc = self.json()
        if not isinstance(doc, dict) or not isinstance(doc.get("violations"), list):
            return None
        return doc["violations"]


def _read_faillog(path: str) -> list:
    out = []
    try:
        with open(path, encoding="utf-8", errors="replace") as f:
            for line in f:
                line = line.strip()
                if line:
                    try:
                        out.append(json.loads(line))
                    except ValueError:
                        out.append({"raw": line})
    except OSError:
        pass
    return out


def _wait_pid(pid: int, timeout: float):
    """Wait for pid with timeout; returns (status|None, timed_out)."""
    deadline = time.monotonic() + timeout
    delay = 0.0005
    while True:
        got, status = os.waitpid(pid, os.WNOHANG)
        if got == pid:
            return status, False
        if time.monotonic() > deadline:
            try:
                os.killpg(pid, signal.SIGKILL)
            except OSError:
                try:
                    os.kill(pid, signal.SIGKILL)
                except OSError:
                    pass
            _, status = os.waitpid(pid, 0)
            return status, True
        time.sleep(delay)
        delay = min(delay * 1.5, 0.02)


child_init_hooks: list = []  # callables run in the cli child before cli.main (monitors)
child_exit_hooks: list = []  # callables(result_extra: dict) run in the cli child after cli.main


def cli(argv, cwd, env=None, timeout=120.0, stdin_devnull=True) -> Result:
    """B-CLI/zygote: run `thailint <argv>` in a forked child of the warm process."""
    warm()
    argv = [str(a) for a in argv]
    faillog = _fresh_log("fl")
    outfd = os.memfd_create("out")
    errfd = os.memfd_create("err")
    monfd = os.memfd_create("mon")
    t0 = time.monotonic()
    pid = os.fork()
    if pid == 0:
        code = 70
        try:
            os.setpgid(0, 0)
            if stdin_devnull:
                dn = os.open(os.devnull, os.O_RDONLY)
                os.dup2(dn, 0)
            os.dup2(outfd, 1)
            os.dup2(errfd, 2)
            sys.stdout = io.TextIOWrapper(io.FileIO(1, "w", closefd=False), encoding="utf-8", errors="strict")
            sys.stderr = io.TextIOWrapper(
                io.FileIO(2, "w", closefd=False), encoding="utf-8", errors="backslashreplace", line_buffering=True
            )
            os.environ["THAILINT_VERIF_FAILLOG"] = faillog
            if env:
                for k, v in env.items():
                    if v is None:
                        os.environ.pop(k, None)
                    else:
                        os.environ[k] = v
            os.chdir(cwd)
            sys.argv = ["thailint"] + argv
            for h in child_init_hooks:
                h()
            from src.cli_main import cli as _cli

            try:
                _cli.main(args=argv, prog_name="thailint")
                code = 0
            except SystemExit as e:
                if e.code is None:
                    code = 0
                elif isinstance(e.code, int):
                    code = e.code
                else:
                    sys.stderr.write(str(e.code) + "\n")
                    code = 1
            except BaseException:  # noqa: BLE001 - mirror the interpreter: traceback + exit 1
                traceback.print_exc()
                code = 1
            extra = {}
            for h in child_exit_hooks:
                try:
                    h(extra)
                except Exception:  # noqa: BLE001
                    extra.setdefault("_hook_errors", []).append(traceback.format_exc())
            if extra:
                os.write(monfd, json.dumps(extra).encode())
            try:
                sys.stdout.flush()
            except Exception:  # noqa: BLE001
                traceback.print_exc()
                code = 120 if code == 0 else code
            try:
                sys.stderr.flush()
            except Exception:  # noqa: BLE001
                pass
        finally:
            os._exit(code & 0xFF)
    status, timed_out = _wait_pid(pid, timeout)
    res = Result()
    res["wall"] = time.monotonic() - t0
    res["timeout"] = timed_out
    if os.WIFSIGNALED(status):
        res["signal"] = os.WTERMSIG(status)
        res["exit"] = -os.WTERMSIG(status)
    else:
        res["signal"] = 0
        res["exit"] = os.WEXITSTATUS(status)
    for name, fd in (("out", outfd), ("err", errfd)):
        os.lseek(fd, 0, os.SEEK_SET)
        chunks = []
        while True:
            b = os.read(fd, 1 << 20)
            if not b:
                break
            chunks.append(b)
        res[name + "_bytes_utf8_ok"] = True
        data = b"".join(chunks)
        try:
            res[name] = data.decode("utf-8")
        except UnicodeDecodeError:
            res[name] = data.decode("utf-8", "surrogateescape")
            res[name + "_bytes_utf8_ok"] = False
        os.close(fd)
    os.lseek(monfd, 0, os.SEEK_SET)
    mon = os.read(monfd, 1 << 24)
    os.close(monfd)
    res["mon"] = json.loads(mon) if mon else {}
    res["swallowed"] = _read_faillog(faillog)
    try:
        os.unlink(faillog)
    except OSError:
        pass
    res["argv"] = argv
    return res


def _next() -> int:
    _state["counter"] += 1
    return _state["counter"]


def _fresh_log(prefix: str) -> str:
    """A failure-log path that does not exist yet (pids are reused across a long run; a stale log would be a false alarm)."""
    while True:
        p = os.path.join(scratch_base(), "tmp", "%s-%d-%d" % (prefix, os.getpid(), _next()))
        if not os.path.lexists(p):
            return p


def cli_real(argv, cwd, env=None, timeout=180.0, python_opts=None, stdin_data=None) -> Result:
    """B-CLI/real: the installed console script in a fresh interpreter."""
    argv = [str(a) for a in argv]
    e = base_env()
    faillog = _fresh_log("flr")
    e["THAILINT_VERIF_FAILLOG"] = faillog
    if env:
        for k, v in env.items():
            if v is None:
                e.pop(k, None)
            else:
                e[k] = v
    if python_opts:
        cmd = ["/venv/bin/python"] + list(python_opts) + [THAILINT_BIN] + argv
    else:
        cmd = [THAILINT_BIN] + argv
    t0 = time.monotonic()
    res = Result()
    try:
        if stdin_data is None:
            p = subprocess.run(cmd, cwd=cwd, env=e, capture_output=True, timeout=timeout, stdin=subprocess.DEVNULL, check=False)
        else:  # answers to interactive prompts
            p = subprocess.run(cmd, cwd=cwd, env=e, capture_output=True, timeout=timeout, input=stdin_data, check=False)
        res["timeout"] = False
        rc = p.returncode
        out, err = p.stdout, p.stderr
    except subprocess.TimeoutExpired as ex:
        res["timeout"] = True
        rc = -9
        out, err = ex.stdout or b"", ex.stderr or b""
    res["wall"] = time.monotonic() - t0
    res["exit"] = rc
    res["signal"] = -rc if rc < 0 else 0
    for name, data in (("out", out), ("err", err)):
        res[name + "_bytes_utf8_ok"] = True
        try:
            res[name] = data.decode("utf-8")
        except UnicodeDecodeError:
            res[name] = data.decode("utf-8", "surrogateescape")
            res[name + "_bytes_utf8_ok"] = False
    res["swallowed"] = _read_faillog(faillog)
    try:
        os.unlink(faillog)
    except OSError:
        pass
    res["mon"] = {}
    res["argv"] = argv
    return res


# ----------------------------------------------------------------------------- pmap
def _child_eval(fn, item, wfd):
    try:
        os.setpgid(0, 0)
    except OSError:
        pass
    try:
        value = fn(item)
        payload = json.dumps({"ok": True, "value": value})
    except BaseException:  # noqa: BLE001
        payload = json.dumps({"ok": False, "error": traceback.format_exc()})
    data = payload.encode("utf-8", "surrogatepass")
    view = memoryview(data)
    while view:
        n = os.write(wfd, view[: 1 << 16])
        view = view[n:]
    os.close(wfd)


def call(fn, item, timeout=300.0):
    """Run fn(item) in a forked child; returns {"ok":bool,"value"|"error"|"signal"|"timeout"}."""
    warm()
    rfd, wfd = os.pipe()
    sys.stdout.flush()
    sys.stderr.flush()
    pid = os.fork()
    if pid == 0:
        code = 0
        try:
            os.close(rfd)
            _child_eval(fn, item, wfd)
        except BaseException:  # noqa: BLE001
            code = 71
        finally:
            os._exit(code)
    os.close(wfd)
    chunks = []
    deadline = time.monotonic() + timeout
    timed_out = False
    while True:
        left = deadline - time.monotonic()
        if left <= 0:
            timed_out = True
            break
        r, _, _ = select.select([rfd], [], [], min(left, 1.0))
        if r:
            b = os.read(rfd, 1 << 20)
            if not b:
                break
            chunks.append(b)
    os.close(rfd)
    if timed_out:
        try:
            os.killpg(pid, signal.SIGKILL)
        except OSError:
            try:
                os.kill(pid, signal.SIGKILL)
            except OSError:
                pass
    _, status = os.waitpid(pid, 0)
    if timed_out:
        return {"ok": False, "timeout": True}
    if os.WIFSIGNALED(status):
        return {"ok": False, "signal": os.WTERMSIG(status)}
    data = b"".join(chunks)
    if not data:
        return {"ok": False, "error": "child exited %r without result" % os.WEXITSTATUS(status)}
    return json.loads(data.decode("utf-8", "surrogatepass"))


def pmap(fn, items, workers=None, timeout=300.0, total_timeout=3000.0):
    """Parallel map with a forked child per item. Results in input order.

    Each lane is itself a fork of the warm parent and evaluates items[i::W] one after the other via
    call(); lanes stream {"i":index,"r":result} JSON lines back over a pipe.
    """
    warm()
    items = list(items)
    if not items:
        return []
    W = max(1, min(workers or NCPU, len(items)))
    lanes = []
    sys.stdout.flush()
    sys.stderr.flush()
    for li in range(W):
        rfd, wfd = os.pipe()
        pid = os.fork()
        if pid == 0:
            code = 0
            try:
                os.close(rfd)
                for _, orfd in lanes:
                    os.close(orfd)
                with os.fdopen(wfd, "wb") as w:
                    for idx in range(li, len(items), W):
                        r = call(fn, items[idx], timeout=timeout)
                        w.write(json.dumps({"i": idx, "r": r}).encode("utf-8", "surrogatepass") + b"\n")
                        w.flush()
            except BaseException:  # noqa: BLE001
                traceback.print_exc()
                code = 72
            finally:
                os._exit(code)
        os.close(wfd)
        lanes.append((pid, rfd))
    results = [None] * len(items)
    bufs = {rfd: b"" for _, rfd in lanes}
    open_fds = set(bufs)
    deadline = time.monotonic() + total_timeout
    while open_fds:
        left = deadline - time.monotonic()
        if left <= 0:
            break
        r, _, _ = select.select(list(open_fds), [], [], min(left, 1.0))
        for fd in r:
            b = os.read(fd, 1 << 20)
            if not b:
                open_fds.discard(fd)
                continue
            bufs[fd] += b
            while b"\n" in bufs[fd]:
                line, bufs[fd] = bufs[fd].split(b"\n", 1)
                rec = json.loads(line.decode("utf-8", "surrogatepass"))
                results[rec["i"]] = rec["r"]
    for pid, rfd in lanes:
        if rfd in open_fds:
            try:
                os.kill(pid, signal.SIGKILL)
            except OSError:
                pass
        os.close(rfd)
        os.waitpid(pid, 0)
    for i, r in enumerate(results):
        if r is None:
            results[i] = {"ok": False, "timeout": True, "lane": True}
    return results
