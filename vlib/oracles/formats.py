"""Extractors / validators for the three output formats (independent of thai-lint's formatters)."""
from __future__ import annotations

import json
import re
from collections import Counter

TEXT_REC = re.compile(r"^  (\S[^\n]*)\n    \[([A-Z]+)\] ([^\s:]+): ([^\n]*)\n\n", re.M)
TEXT_HEAD = re.compile(r"^Found (\d+) violation\(s\):\n\n")


def expected_location(fp: str, line, col) -> str:
    """Documented text form: path[:line][:column] (a missing part means 0)."""
    loc = fp
    if line:
        loc += ":%d" % line
    if col:
        loc += ":%d" % col
    return loc


def parse_json(out: str):
    """-> (records Counter[(rule, file, line, col, msg)], problems list)"""
    problems = []
    try:
        doc = json.loads(out)
    except ValueError as e:
        return None, ["stdout is not valid JSON: %s" % e]
    if not isinstance(doc, dict) or not isinstance(doc.get("violations"), list):
        return None, ["JSON document lacks a 'violations' list"]
    if doc.get("total") != len(doc["violations"]):
        problems.append("JSON total=%r but %d violations listed" % (doc.get("total"), len(doc["violations"])))
    recs = Counter()
    for v in doc["violations"]:
        if not isinstance(v, dict):
            problems.append("non-object violation entry")
            continue
        for k, ty in (("rule_id", str), ("file_path", str), ("line", int), ("column", int), ("message", str)):
            if not isinstance(v.get(k), ty) or isinstance(v.get(k), bool):
                problems.append("JSON field %s has type %s" % (k, type(v.get(k)).__name__))
        recs[(v.get("rule_id"), v.get("file_path"), v.get("line"), v.get("column"), v.get("message"))] += 1
    return recs, problems


def parse_sarif(out: str):
    """Structural SARIF 2.1.0 validation (the parts the property names) + record extraction."""
    problems = []
    try:
        doc = json.loads(out)
    except ValueError as e:
        return None, ["stdout is not valid JSON (sarif): %s" % e]
    if not isinstance(doc, dict):
        return None, ["SARIF top level is not an object"]
    if doc.get("version") != "2.1.0":
        problems.append("SARIF version is %r" % doc.get("version"))
    runs = doc.get("runs")
    if not isinstance(runs, list) or len(runs) != 1 or not isinstance(runs[0], dict):
        return None, problems + ["SARIF runs is not a one-element list"]
    run = runs[0]
    driver = (run.get("tool") or {}).get("driver") if isinstance(run.get("tool"), dict) else None
    if not isinstance(driver, dict) or not isinstance(driver.get("name"), str) or not isinstance(driver.get("rules"), list):
        return None, problems + ["SARIF tool.driver.{name,rules} missing"]
    declared = []
    for r in driver["rules"]:
        if not isinstance(r, dict) or not isinstance(r.get("id"), str):
            problems.append("SARIF rule without string id")
        else:
            declared.append(r["id"])
    if len(declared) != len(set(declared)):
        problems.append("SARIF driver.rules declares an id twice")
    results = run.get("results")
    if not isinstance(results, list):
        return None, problems + ["SARIF results is not a list"]
    recs = Counter()
    for res in results:
        try:
            rid = res["ruleId"]
            text = res["message"]["text"]
            locs = res["locations"]
            pl = locs[0]["physicalLocation"]
            uri = pl["artifactLocation"]["uri"]
            reg = pl["region"]
            sl, sc = reg["startLine"], reg.get("startColumn", 1)
        except (KeyError, IndexError, TypeError) as e:
            problems.append("SARIF result lacks %s" % e)
            continue
        if not isinstance(rid, str) or rid not in declared:
            problems.append("SARIF result ruleId %r not declared in driver.rules" % (rid,))
        if not isinstance(text, str):
            problems.append("SARIF message.text is not a string")
        if not isinstance(uri, str):
            problems.append("SARIF artifactLocation.uri is not a string")
        if not isinstance(sl, int) or isinstance(sl, bool) or sl < 1:
            problems.append("SARIF startLine %r is not a 1-based integer" % (sl,))
        if not isinstance(sc, int) or isinstance(sc, bool) or sc < 1:
            problems.append("SARIF startColumn %r is not a 1-based integer" % (sc,))
        if res.get("level") not in (None, "error", "warning", "note", "none"):
            problems.append("SARIF level %r" % (res.get("level"),))
        recs[(rid, uri, sl, (sc - 1) if isinstance(sc, int) else sc, text)] += 1
    return recs, problems


def parse_text(out: str):
    """-> (Counter[(rule, location-string, msg)], problems, ambiguous: bool)"""
    problems = []
    if out.strip() == "✓ No violations found":
        return Counter(), problems, False
    m = TEXT_HEAD.match(out)
    if not m:
        return None, ["text output has neither the 'Found N violation(s)' header nor the no-violations line"], False
    n = int(m.group(1))
    body = out[m.end():]
    recs = Counter()
    pos = 0
    count = 0
    ambiguous = False
    for rm in TEXT_REC.finditer(body):
        if rm.start() != pos:
            ambiguous = True  # multi-line message or unparsable stretch
        pos = rm.end()
        recs[(rm.group(3), rm.group(1), rm.group(4))] += 1
        count += 1
    if pos != len(body):
        ambiguous = True
    if not ambiguous and count != n:
        problems.append("text header says %d violations, %d listed" % (n, count))
    return recs, problems, ambiguous


def has_lone_surrogate(s: str) -> bool:
    return any(0xD800 <= ord(c) <= 0xDFFF for c in s)
