"""C09 - results do not depend on how paths are spelled or where the project lives.

Monitor: boundary trace of the same command on byte-identical project content placed under different
parent directories and invoked from different working directories with different target spellings.
Oracle: multiset equality with the reference run (`.` from inside, innocuous parent) after mapping every
reported path (file_path and paths inside messages) to a project-relative path.
"""
from __future__ import annotations

import os
import re
from collections import Counter

from .. import runner
from ..gen import triggers

EXCLUDED_PARENTS = ["build", "dist", "venv", ".venv", "node_modules", "__pycache__", "htmlcov", "pkg.egg-info", ".tox", ".eggs",
                    ".pytest_cache", ".mypy_cache", ".ruff_cache"]
TEST_PARENTS = ["tests", "test", "test_data", "mytest_", "a.test.b", "spec", "examples", "benches", "fixtures", "__tests__", "testing"]
PLAIN_PARENTS = ["plain", "with space", "ünï", "src", "lib"]

SPELLINGS = ["dot", "abs", "rel-from-parent", "dotdot", "sibling", "files-rel", "files-abs", "abs-elsewhere", "project-root-opt", "dot-slash",
             "via-parent-dotdot", "files-via-parent-dotdot", "in-pkg-dot", "in-tests-dot", "file-from-its-dir"]
# spellings that cover only part of the project: compared with that part of the reference (per-file rules only)
SUBSET = {"in-pkg-dot": "pkg/", "in-tests-dot": "tests/", "file-from-its-dir": "pkg/quiet.py"}


def project(rng):
    files = triggers.random_files(rng, tag="z")
    # files in sub-directories whose names are documented exclusions / test markers *inside* the project:
    # these must behave identically wherever the project lives
    files["tests/test_sample.py"] = "def test_it(a):\n    print(a)\n    return a * 5151\n"
    files["examples/demo.rs"] = "fn demo(v: Vec<i32>) -> i32 {\n    let x = v.first().unwrap();\n    *x * 6161\n}\n"
    files["pkg/build/gen.py"] = "def gen(a):\n    return a * 7171\n"
    files["pkg/util.py"] = "def util(a, verbose, logger):\n    print(a)\n    if verbose:\n        logger.info(\"starting\")\n    return a * 8181\n"
    files["pkg/skipped.py"] = "def skipped(a):\n    print(a)\n    return a * 9191\n"
    files["vendor/lib.py"] = "def lib(a):\n    print(a)\n    return a * 9292\n"
    # repository-level ignore patterns are relative to the project root, wherever the command is run from
    files[".thailintignore"] = "pkg/skipped.py\nvendor/\n"
    # a TS file whose only test marker is the in-project directory it lives in
    files["tests/helpers.ts"] = "export function helper(a: number): number {\n  console.log(a);\n  return a * 7373;\n}\n"
    # per-linter ignore patterns name places inside the project (a file and a directory)
    files["pkg/quiet.py"] = "def quiet(a):\n    print(a)\n    return a * 8282\n"
    files["pkg/gen/out.py"] = "def out(a):\n    print(a)\n    return a * 8383\n"
    y = files[".thailint.yaml"]
    # ... and directories inside the project that happen to be called like a directory the project may live under
    files["pkg/fixtures/fx.py"] = "def fx(a):\n    print(a)\n    return a * 8484\n"
    files["pkg/plain/pl.py"] = "def pl(a):\n    print(a)\n    return a * 8585\n"
    for sec in ("magic-numbers", "improper-logging", "print-statements", "nesting", "srp", "method-property", "stateless-class", "lbyl", "collection-pipeline",
                "dry", "stringly-typed", "file-header", "blocking-async", "clone-abuse", "unwrap-abuse"):
        block = "  ignore:\n    - \"pkg/quiet.py\"\n    - \"pkg/gen/\"\n    - \"fixtures/\"\n    - \"plain/\"\n"
        if re.search(r"^%s:\n" % re.escape(sec), y, re.M):
            y = re.sub(r"^(%s:\n)" % re.escape(sec), lambda m: m.group(1) + block, y, count=1, flags=re.M)
        else:
            y += "%s:\n%s" % (sec, block)
    files[".thailint.yaml"] = y
    # one file name in four places of differing status (plain, per-linter-ignored directory, test directory, source root)
    for d in ("pkg", "pkg/gen", "tests", "src"):
        files[d + "/calc.py"] = "def gross(net, log):\n    print(net)\n    log.info(f\"net {net}\")\n    return net * 4711 + 2599\n"
    # findings that in-source directives suppress (every form, several rules, and a duplicated block for dry): a table of directives keyed by
    # a differently spelled path would bring them back under some spellings only
    dup = "".join("    sup_val_%d = sup_compute_%d(alpha, beta) + sup_offset_%d\n" % (k, k, k) for k in range(5))
    for nm in ("one", "two"):
        files["pkg/suppressed_%s.py" % nm] = (
            "def sup_%s(alpha, beta):\n    # thailint: ignore-start dry\n%s    # thailint: ignore-end\n    print(alpha)  # thailint: ignore[improper-logging]\n"
            "    # thailint: ignore-next-line[magic-numbers]\n    return alpha * 9393\n\n\n"
            "def sup_same_%s(alpha, beta):\n%s    return beta * 9494  # thailint: ignore[magic-numbers]\n" % (nm, dup, nm, dup.replace("sup_", "sup2_").replace("    sup2_val_0", "    sup2_val_0", 1)))
    files["pkg/suppressed_one.py"] = files["pkg/suppressed_one.py"].replace("def sup_same_one(alpha, beta):\n", "def sup_same_one(alpha, beta):  # thailint: ignore[dry]\n", 1)
    files["pkg/suppressed_file.py"] = "# thailint: ignore-file[magic-numbers]\ndef sup_file(a):\n    print(a)\n    return a * 9595\n"
    # enough files for --parallel to really use its worker pool (it falls back to the sequential path below 2 x workers files)
    for i in range(14):
        files["pkg/fill/f%02d.py" % i] = "def fill_%d(a):\n    print(a)\n    return a * %d\n" % (i, 10007 + i)
    return files


PATHTOK = re.compile(r"(?<![\w/.-])((?:/|\.\.?/)?[\w.-]+(?:/[\w.-]+)+)")


BARETOK = re.compile(r"(?<![\w/.-])([\w-]+\.(?:py|ts|tsx|js|jsx|rs|md))(?![\w/.-]*/)")


def norm_path(p: str, root: str, cwd: str) -> str:
    q = p if os.path.isabs(p) else os.path.normpath(os.path.join(cwd, p))
    q = os.path.normpath(q)
    if not os.path.isabs(p) and not os.path.exists(q) and os.path.exists(os.path.join(root, p)):
        return os.path.normpath(p)  # reported relative to the project root (file-placement)
    rr = os.path.realpath(root)
    for base in (root, rr):
        if q == base or q.startswith(base + "/"):
            return os.path.relpath(q, base)
    # root-relative by design (file-placement) when invoked from elsewhere
    if not os.path.isabs(p) and os.path.exists(os.path.join(root, p)):
        return os.path.normpath(p)
    return p


def norm_msg(msg: str, root: str, cwd: str, bare_names: bool = False) -> str:
    msg = msg.replace(os.path.realpath(root) + "/", "").replace(root + "/", "")
    rel = os.path.relpath(root, cwd)
    if rel not in (".", ""):
        msg = msg.replace(rel + "/", "")

    def sub(m):
        tok = m.group(1)
        cand = norm_path(tok, root, cwd)
        return cand if os.path.exists(os.path.join(root, cand)) else tok
    msg = PATHTOK.sub(sub, msg)
    if not bare_names:
        return msg  # (stringly-typed quotes base names only, whatever the working directory)

    def bare(m):  # dry quotes other locations relative to the working directory: a file of the working directory quoted by its bare name
        tok = m.group(1)
        cand = norm_path(tok, root, cwd)
        return cand if os.path.isfile(os.path.join(cwd, tok)) and os.path.isfile(os.path.join(root, cand)) else tok
    return BARETOK.sub(bare, msg)


def exec_case(case):
    base = runner.new_dir("q")
    parent = os.path.join(base, case["parent"])
    root = os.path.join(parent, "proj")
    sibling = os.path.join(parent, "sib")
    os.makedirs(sibling)
    elsewhere = os.path.join(base, "elsewhere")
    os.makedirs(elsewhere)
    # the directories a command may be started from carry ignore files of their own: they describe THOSE directories, not the linted project
    for d in (elsewhere, sibling):
        with open(os.path.join(d, ".thailintignore"), "w", encoding="utf-8") as fh:
            fh.write("*.py\n*.ts\n*.rs\nsrc/\npkg/\n")
    runner.write_tree(root, case["files"])
    # a source file that is a symlink to a file OUTSIDE the project root (shared between checkouts): still a file of the project, under its project path
    shared = os.path.join(parent, "shared_out")
    os.makedirs(shared)
    with open(os.path.join(shared, "rates.py"), "w", encoding="utf-8") as fh:
        fh.write("def linked_rate(a):\n    print(a)\n    return a * 6543\n")
    os.symlink(os.path.join("..", "..", "shared_out", "rates.py"), os.path.join(root, "src", "linked_rates.py"))
    srcs = sorted([f for f in case["files"] if not f.startswith(".")] + ["src/linked_rates.py"])
    out = {}
    for sp_full in case["spellings"]:
        pre = []
        sp, _, mode = sp_full.partition("+")
        if sp == "dot":
            cwd, targets = root, ["."]
        elif sp == "dot-slash":
            cwd, targets = root, ["./src/..", ]
        elif sp == "abs":
            cwd, targets = root, [root]
        elif sp == "rel-from-parent":
            cwd, targets = parent, ["proj"]
        elif sp == "dotdot":
            cwd, targets = os.path.join(root, "src"), [".."]
        elif sp == "sibling":
            cwd, targets = sibling, ["../proj"]
        elif sp == "files-rel":
            cwd, targets = root, list(srcs)
        elif sp == "files-abs":
            cwd, targets = elsewhere, [os.path.join(root, f) for f in srcs]
        elif sp == "via-parent-dotdot":
            cwd, targets = elsewhere, [os.path.join("..", case["parent"], "proj")]
        elif sp == "files-via-parent-dotdot":
            cwd, targets = elsewhere, [os.path.join("..", case["parent"], "proj", f) for f in srcs]
        elif sp == "in-pkg-dot":
            cwd, targets = os.path.join(root, "pkg"), ["."]
        elif sp == "in-tests-dot":
            cwd, targets = os.path.join(root, "tests"), ["."]
        elif sp == "file-from-its-dir":
            cwd, targets = os.path.join(root, "pkg"), ["quiet.py"]
        elif sp == "abs-elsewhere":
            cwd, targets = elsewhere, [root]
        elif sp == "project-root-opt":
            cwd, targets, pre = elsewhere, [root], ["--project-root", root]
        else:
            raise ValueError(sp)
        res = {}
        for cmd in case["cmds"]:
            argv = pre + [cmd, "--format", "json"] + (["--parallel"] if mode == "parallel" else []) + targets
            r = runner.cli(argv, cwd)
            vs = r.violations()
            if vs is None or r.exit not in (0, 1):
                res[cmd] = {"error": "exit %s %s" % (r.exit, r.err[-300:])}
            else:
                res[cmd] = {"v": sorted([v["rule_id"], norm_path(v["file_path"], root, cwd), v["line"], v["column"],
                                         norm_msg(v["message"], root, cwd, v["rule_id"].startswith("dry."))] for v in vs)}
        out[sp_full] = res
    return out


LIB_STEPS = [("pkg", "calc.py"), ("pkg/gen", "calc.py"), ("tests", "calc.py"), ("src", "calc.py"), ("", "pkg/calc.py"), ("pkg", "gen/calc.py"),
             ("pkg", "."), ("tests", "."), ("pkg/gen", "."), ("pkg", "quiet.py"), ("pkg/gen", "../calc.py"), ("", "tests/calc.py"), ("", "src/calc.py")]


def _lib_norm(vs, root, cwd):
    return sorted([v.rule_id, norm_path(str(v.file_path), root, cwd), v.line, v.column, norm_msg(v.message, root, cwd, v.rule_id.startswith("dry."))] for v in vs)


def lib_fresh(arg):
    """Reference: a fresh process, working directory = project root, absolute spelling."""
    root, rel_cwd, target = arg
    os.chdir(root)
    from src import Linter

    full = os.path.normpath(os.path.join(root, rel_cwd, target))
    return _lib_norm(Linter(project_root=root).lint(full), root, root)


def lib_walk(arg):
    """One long-lived process: the same relative spellings from one working directory after another."""
    root, steps, shared = arg
    os.chdir(root)
    from src import Linter

    lin = Linter(project_root=root)
    out = []
    for rel_cwd, target in steps:
        cwd = os.path.join(root, rel_cwd)
        os.chdir(cwd)
        out.append(_lib_norm((lin if shared else Linter(project_root=root)).lint(target), root, cwd))
    return out


def exec_lib_case(case):
    base = runner.new_dir("q")
    root = os.path.join(base, case["parent"], "proj")
    runner.write_tree(root, case["files"])
    out = {"walks": [], "fresh": {}}
    for st in LIB_STEPS:
        r = runner.call(lib_fresh, (root,) + tuple(st), timeout=300)
        out["fresh"]["%s|%s" % st] = {"v": r["value"]} if r.get("ok") else {"error": str(r)[:300]}
    for steps, shared in case["walks"]:
        r = runner.call(lib_walk, (root, steps, shared), timeout=600)
        out["walks"].append({"steps": steps, "shared": shared, "res": {"v": r["value"]} if r.get("ok") else {"error": str(r)[:300]}})
    return out


def mechanism(cmd, parent, sp, only_ref, only_var, files_in_ref):
    """Mechanism key from the shape of the difference (never from the case identity)."""
    marker = any(m in parent.lower() for m in ("test", "spec", "example", "bench", "fixture"))
    pclass = "test-marker-parent" if marker else "excluded-dir-parent" if parent in EXCLUDED_PARENTS else "plain-parent"
    # the marker is only visible to the tool when the spelled target runs through the parent directory
    sp, _, mode = sp.partition("+")
    if mode and pclass != "test-marker-parent":
        cmd = cmd + ":" + mode  # (a test-marker parent is seen by the same per-file heuristics in the workers: same mechanism, same key)
    if pclass == "test-marker-parent" and sp not in ("abs", "files-abs", "abs-elsewhere", "project-root-opt", "via-parent-dotdot", "files-via-parent-dotdot"):
        pclass = "test-marker-parent-relative-spelling"
    lost_files = {r[1] for r in only_ref}
    gained_files = {r[1] for r in only_var}
    if not only_var and only_ref:
        return "%s:loses-findings:%s" % (pclass, cmd)
    if only_var and not only_ref:
        return "%s:gains-findings:%s" % (pclass, cmd)
    return "%s:differs:%s" % (pclass, cmd)


def run(ctx):
    ctx.rule = ("case = (parent directory name, spelling/cwd, command) on byte-identical project content, compared with the reference "
                "(innocuous parent, '.' from inside); distinct non-trivial = (parent, spelling, command) whose reference has >= 1 violation")
    ctx.assumptions = ["reported paths are mapped to project-relative paths (against the cwd; against the project root for root-relative reports)",
                       "paths quoted inside messages are mapped the same way", "every generated project root carries a .git/ directory marker"]
    rng = ctx.rng()
    files = project(rng)
    cmds = triggers.CMDS
    parents = PLAIN_PARENTS + EXCLUDED_PARENTS + TEST_PARENTS
    if ctx.quick:
        parents = PLAIN_PARENTS[:3] + EXCLUDED_PARENTS[:6] + ["pkg.egg-info"] + TEST_PARENTS[:7]
    cases = []
    for p in parents:
        sps = SPELLINGS if (not ctx.quick or p in ("plain", "build", "tests")) else ["dot", "abs", "rel-from-parent", "files-abs", "via-parent-dotdot"]
        # the same spellings under --parallel (worker processes resolve paths on their own), compared with a --parallel reference
        sps = list(sps) + [x + "+parallel" for x in (("abs", "via-parent-dotdot", "rel-from-parent", "files-abs") if ctx.quick else sps)]
        for sp_chunk in [sps[i:i + 3] for i in range(0, len(sps), 3)]:
            cases.append({"parent": p, "files": files, "spellings": sp_chunk, "cmds": cmds})
    ref_case = {"parent": "ref", "files": files, "spellings": ["dot", "dot+parallel"], "cmds": cmds}
    lib_cases = []
    for p in (["plain", "tests"] if ctx.quick else ["plain", "tests", "build", "with space", "fixtures"]):
        walks = []
        for k in range(3 if ctx.quick else 8):
            steps = list(LIB_STEPS)
            rng.shuffle(steps)
            walks.append([[list(s) for s in steps], k % 2 == 0])
        lib_cases.append({"parent": p, "files": files, "walks": walks})
    lib_outs = runner.pmap(exec_lib_case, lib_cases, timeout=1200)
    for case, o in zip(lib_cases, lib_outs):
        if not o.get("ok"):
            ctx.inconclusive_if(True, "library walk failed in harness: %s" % str(o)[:300])
            continue
        fresh = o["value"]["fresh"]
        for w in o["value"]["walks"]:
            if "error" in w["res"]:
                ctx.discrepancy("lib-walk:run-error", "parent %r: %s" % (case["parent"], w["res"]["error"]), {"parent": case["parent"], "steps": w["steps"]}, files)
                continue
            for (rel_cwd, target), got in zip(w["steps"], w["res"]["v"]):
                ref = fresh["%s|%s" % (rel_cwd, target)]
                ctx.evaluations += 1
                ctx.count("lib_walk_steps_compared")
                if "error" in ref:
                    ctx.inconclusive_if(True, "library reference failed: %s" % ref["error"])
                    continue
                a, b = Counter(map(tuple, ref["v"])), Counter(map(tuple, got))
                if a:
                    ctx.nontrivial([case["parent"], "lib-walk", rel_cwd, target])
                if a != b:
                    only_ref, only_var = list((a - b).elements()), list((b - a).elements())
                    fams = sorted({r[0].split(".")[0] for r in only_ref + only_var})
                    ctx.discrepancy("lib-walk:relative-spelling-after-chdir:%s" % ",".join(fams),
                                    "project under .../%s/proj, one process (%s Linter), Linter.lint(%r) from <root>/%s after %d earlier calls: %d findings only in a fresh process given the absolute path (e.g. %r), %d only here (e.g. %r)" % (
                                        case["parent"], "shared" if w["shared"] else "fresh", target, rel_cwd, w["steps"].index([rel_cwd, target]), len(only_ref), only_ref[:1], len(only_var), only_var[:1]),
                                    {"parent": case["parent"], "steps": w["steps"], "shared": w["shared"], "expected": only_ref[:5], "observed": only_var[:5]}, files)
    outs = runner.pmap(exec_case, [ref_case] + cases, timeout=900)
    if not outs[0].get("ok"):
        ctx.inconclusive_if(True, "reference run failed: %s" % str(outs[0])[:300])
        return
    refs = {}
    for mode, name in (("", "dot"), ("parallel", "dot+parallel")):
        ref = outs[0]["value"][name]
        refs[mode] = {c: (Counter(map(tuple, ref[c]["v"])) if "v" in ref[c] else None) for c in cmds}
        for c in cmds:
            if refs[mode][c] is None:
                ctx.inconclusive_if(True, "reference run (%s) of %s failed: %s" % (name, c, ref[c]))
                return
    ctx.obs["parallel_reference_violations_per_command"] = {c: sum(refs["parallel"][c].values()) for c in cmds}
    ctx.obs["reference_violations_per_command"] = {c: sum(refs[""][c].values()) for c in cmds}
    for case, o in zip(cases, outs[1:]):
        if not o.get("ok"):
            ctx.inconclusive_if(True, "case failed in harness: %s" % str(o)[:300])
            continue
        for sp, res in o["value"].items():
            ref_counts = refs[sp.partition("+")[2]]
            subset = SUBSET.get(sp.partition("+")[0])
            if subset:
                ref_counts = {c: Counter({k: n for k, n in ref_counts[c].items() if k[1].startswith(subset)}) for c in cmds}
            for cmd in cmds:
                if subset and cmd in ("dry", "stringly-typed"):
                    continue  # cross-file rules legitimately see less when only a part of the project is linted
                ctx.evaluations += 1
                r = res[cmd]
                rep = {"parent": case["parent"], "spelling": sp, "cmd": cmd}
                if "error" in r:
                    ctx.discrepancy("run-error:%s" % cmd, "parent %r spelling %s: %s" % (case["parent"], sp, r["error"]), rep, files)
                    continue
                got = Counter(map(tuple, r["v"]))
                if ref_counts[cmd]:
                    ctx.nontrivial([case["parent"], sp, cmd])
                ctx.count("compared")
                ctx.count("parentclass:" + ("excluded" if case["parent"] in EXCLUDED_PARENTS else "test" if case["parent"] in TEST_PARENTS else "plain"))
                ctx.count("spelling:" + sp)
                if got != ref_counts[cmd]:
                    only_ref = list((ref_counts[cmd] - got).elements())
                    only_var = list((got - ref_counts[cmd]).elements())
                    key = mechanism(cmd, case["parent"], sp, only_ref, only_var, None)
                    ctx.discrepancy(key, "project under .../%s/proj, spelling %s, `%s`: %d findings only in reference (e.g. %r), %d only here (e.g. %r)" % (
                        case["parent"], sp, cmd, len(only_ref), only_ref[:1], len(only_var), only_var[:1]),
                        dict(rep, expected=only_ref[:5], observed=only_var[:5]), files)
    ctx.sample({"parents": parents, "spellings": SPELLINGS, "commands": cmds, "files": sorted(files)})
    ctx.inconclusive_if(ctx.counters["compared"] < 300, "fewer than 300 comparisons")
