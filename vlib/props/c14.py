"""C14 - a run lints exactly the non-excluded, non-ignored files under the given paths.

Monitor: every file of a generated tree carries a planted violation (file-placement deny-all for every file type,
a magic number in every source file); the set of reported file paths is the observable 'linted set'.
Oracle: reference walker + reference matcher for the documented repository ignore-pattern forms.
"""
from __future__ import annotations

import os

from .. import runner

EXCLUDED_DIRS = ["node_modules", "__pycache__", ".venv", "venv", "build", "dist", ".tox", ".eggs", "pkg.egg-info", ".pytest_cache",
                 ".mypy_cache", ".ruff_cache", "htmlcov", ".svn", ".hg", ".git"]
LOOKALIKE_DIRS = ["builds", "mydist", "venv2", "a.egg-info.bak", "node_modules2", "_build", "dist-info", "gitx"]
PLAIN_DIRS = ["pkg", "core", "util", "api", "data", ".hidden", ".config", "lib", "library", "lib2", "gen", "generated", "vendor", "docs"]
ARTEFACT_EXT = [".pyc", ".pyo", ".pyd", ".so", ".dll", ".dylib", ".class", ".o", ".obj"]
SRC_NAMES = ["mod.py", "util.ts", "core.rs", "view.js", "helper.py", "item_gen.py", "auto_gen.py",
             # dotted names: an artefact or excluded word in the MIDDLE of the name does not make the file an artefact
             "user.class.ts", "mesh.obj.py", "loader.o.js", "plugin.so.rs", "cache.pyc.py", "types.d.ts", "app.min.js", "v1.2.py", "build.py", "dist.ts"]
OTHER_NAMES = ["notes.txt", "data.json", "README.md", "build", "dist", "venv", "LICENSE", "style.css", "lib.py", "libfoo.txt"]


def src_text(name, n):
    if name.endswith(".py"):
        return "def fn_%d(a):\n    return a * %d\n" % (n, 4000 + n)
    if name.endswith((".ts", ".js")):
        return "function fn_%d(a) {\n  return a * %d;\n}\n" % (n, 4000 + n)
    if name.endswith(".rs"):
        return "fn fn_%d(a: i64) -> i64 {\n    a * %d\n}\n" % (n, 4000 + n)
    return "content %d\n" % n


def gen_tree(rng):
    dirs = [""]
    for _ in range(rng.randint(3, 10)):
        parent = rng.choice(dirs)
        if parent.count("/") >= 3:
            continue
        pool = PLAIN_DIRS * 3 + EXCLUDED_DIRS + LOOKALIKE_DIRS
        name = rng.choice(pool)
        d = (parent + "/" + name) if parent else name
        if d not in dirs and name != ".git":  # a nested .git/ would legitimately start a nested project root
            dirs.append(d)
    files = {}
    n = 0
    for d in dirs:
        for _ in range(rng.randint(0, 3) if d else rng.randint(2, 4)):
            n += 1
            r = rng.random()
            if r < 0.6:
                name = rng.choice(SRC_NAMES if d else [x for x in SRC_NAMES if not x.endswith("_gen.py")])
            elif r < 0.85:
                name = rng.choice(OTHER_NAMES)
            else:
                name = "art%d%s" % (n, rng.choice(ARTEFACT_EXT))
            p = (d + "/" + name) if d else name
            if p in dirs or any(x.startswith(p + "/") for x in dirs) or p in files:
                continue
            files[p] = src_text(name, n)
    return sorted(dirs), files


def gen_patterns(rng, dirs, files):
    """Documented repository-level pattern forms, chosen where gitignore reading and a glob reading agree."""
    pats = []
    all_dirnames = sorted({c for d in dirs for c in d.split("/") if c})
    for _ in range(rng.randint(0, 4)):
        form = rng.choice(["dir/", "*.ext", "exact", "dir/**", "**/*_gen.py", "charclass", "question", "**/dir/"])
        if form == "dir/" and all_dirnames:
            pats.append(rng.choice(all_dirnames + ["lib", "gen", "nonexistent"]) + "/")
        elif form == "*.ext":
            pats.append("*" + rng.choice([".txt", ".json", ".md", ".ts", ".rs", ".css"]))
        elif form == "exact" and files:
            pats.append(rng.choice(sorted(files)))
        elif form == "dir/**":
            tops = [d for d in dirs if d and "/" not in d]
            if tops:
                pats.append(rng.choice(tops) + "/**")
        elif form == "**/*_gen.py":
            pats.append("**/*_gen.py")
        elif form == "**/dir/" and all_dirnames:
            # docs/configuration.md: "**/node_modules/", "**/dist/" - the directory wherever it is, the project root included
            pats.append("**/" + rng.choice(all_dirnames) + "/")
        elif form in ("charclass", "question") and files:
            # the remaining glob constructs, as the ONLY construct of the pattern: a character class / a one-character wildcard inside the file name of an exact path
            f = rng.choice(sorted(files))
            d, _, base = f.rpartition("/")
            stem = base.split(".")[0]
            k = rng.randrange(len(stem)) if stem else None
            if k is not None and stem[k] not in "[]*?!":
                cls = rng.choice(["[%sZ]" % stem[k], "[%s-%s]" % (stem[k], stem[k]), "[!Z]", "[Z%s9]" % stem[k]]) if form == "charclass" else "?"
                pats.append((d + "/" if d else "") + base[:k] + cls + base[k + 1:])
    return pats


def ref_ignored(path: str, patterns) -> bool:
    import fnmatch
    parts = path.split("/")
    for p in patterns:
        if p.endswith("/**"):
            d = p[:-3]
            if path.startswith(d + "/"):
                return True
        elif p.startswith("**/") and p.endswith("/") and "/" not in p[3:-1]:
            if p[3:-1] in parts[:-1]:
                return True
        elif p.endswith("/"):
            d = p[:-1]
            if "/" not in d:
                if d in parts[:-1]:
                    return True
            elif path.startswith(d + "/") or ("/" + d + "/") in ("/" + path):
                return True
        elif p.startswith("*.") and "/" not in p:
            if parts[-1].endswith(p[1:]):
                return True
        elif p == "**/*_gen.py":
            if len(parts) > 1 and parts[-1].endswith("_gen.py"):
                return True
        elif "[" in p or "?" in p:
            if fnmatch.fnmatchcase(path, p):
                return True
        else:
            if path == p:
                return True
    return False


def ref_excluded(path: str) -> bool:
    parts = path.split("/")
    for c in parts[:-1]:
        if c in EXCLUDED_DIRS or c.endswith(".egg-info"):
            return True
    return os.path.splitext(parts[-1])[1] in ARTEFACT_EXT


def ref_linted(files, patterns, targets, recursive):
    out = set()
    for t in targets:
        for f in files:
            if t == ".":
                under = True
                direct = "/" not in f
            elif f == t:
                under = direct = True
            else:
                under = f.startswith(t + "/")
                direct = under and "/" not in f[len(t) + 1:]
            if not under or (not recursive and not direct):
                continue
            if ref_excluded(f) or ref_ignored(f, patterns):
                continue
            out.add(f)
    return out


def exec_case(case):
    d = runner.new_dir("w")
    files = dict(case["files"])
    extra = {}
    if case["source"] in ("thailintignore", "both"):
        pats = case["patterns"] if case["source"] == "thailintignore" else case["patterns"][::2]
        # (sometimes saved with a byte order mark by an editor, and then the FIRST line is a pattern)
        extra[".thailintignore"] = ("\ufeff" + "\n".join(pats) + "\n") if case.get("bom") else "# generated\n" + "\n".join(pats) + "\n"
    if case["source"] in ("yaml", "both"):
        import yaml
        pats = case["patterns"] if case["source"] == "yaml" else case["patterns"][1::2]
        extra[".thailint.yaml"] = yaml.safe_dump({"ignore": pats, "magic-numbers": {"enabled": True}})
    pre, post = [], []
    if case["source"] == "json":
        import json as _json
        extra[".thailint.json"] = _json.dumps({"ignore": case["patterns"]})
    elif case["source"] == "pyproject":
        from ..gen import configs
        extra["pyproject.toml"] = configs.to_toml({"ignore": case["patterns"]})
    elif case["source"] in ("opt-config", "group-opt-config"):
        import yaml
        extra["custom_rules.yaml"] = yaml.safe_dump({"ignore": case["patterns"], "file-placement": {"global_deny": [".*"]}})
        if case["source"] == "opt-config":
            post = ["--config", "custom_rules.yaml"]
        else:
            pre = ["--config", "custom_rules.yaml"]
    runner.write_tree(d, dict(files, **extra))
    for dd in case["dirs"]:
        if dd:
            os.makedirs(os.path.join(d, dd), exist_ok=True)
    res = {}
    flags = [] if case["recursive"] else ["--no-recursive"]
    fp_rules = ["--rules", '{"global_deny": [".*"]}'] if not post and not pre else []
    targets = case["targets"]
    if case.get("dotdot"):
        targets = [os.path.join(d, case["dotdot"], *([".."] * (case["dotdot"].count("/") + 1)), t) for t in targets]

    def rel(p_):
        p_ = os.path.normpath(p_)
        return os.path.relpath(p_, d) if os.path.isabs(p_) and (p_ + "/").startswith(d + "/") else p_
    for name, argv in (("placement", pre + ["file-placement", "--format", "json"] + fp_rules + post + flags + targets),
                       ("magic", pre + ["magic-numbers", "--format", "json"] + post + flags + targets)):
        r = runner.cli(argv, d)
        vs = r.violations()
        res[name] = {"exit": r.exit, "files": None if vs is None else sorted({rel(v["file_path"]) for v in vs}), "err": r.err[-300:], "argv": argv}
    return {"res": res, "extra": extra}


def cross_file_job(arg):
    files, argv, targets = arg
    d = runner.new_dir("x")
    runner.write_tree(d, files)
    r = runner.cli(argv + targets, d)
    vs = r.violations()
    return {"exit": r.exit, "v": None if vs is None else sorted([v["rule_id"], os.path.normpath(v["file_path"]), v["line"], v["message"][:200]] for v in vs), "err": r.err[-300:]}


def run_cross_file(ctx, rng):
    """Ignored / excluded files must not contribute to CROSS-FILE findings either: every duplicated block and every repeated string set of this
    project has exactly one occurrence outside the ignored places, so nothing may be reported - sequentially or with the worker pool."""
    def block(tag):
        return "".join("    xf_val_%s_%d = xf_compute_%s_%d(alpha, beta) + xf_offset_%s_%d\n" % (tag, k, tag, k, tag, k) for k in range(5))

    def module(tag, name):
        return ("def %s_%s(alpha, beta, mode_%s):\n%s    if mode_%s in (\"north_%s\", \"south_%s\", \"east_%s\"):\n        return 1\n    return 0\n" % (name, tag, tag, block(tag), tag, tag, tag, tag))
    places = {"thailintignore-dir": "generated/", "thailintignore-glob": "*_pb.py", "config-ignore": "vendored/", "hard-excluded": None, "thailintignore-exact": "legacy/old_billing.py"}
    files = {}
    ign, cfg_ign = [], []
    for i in range(6):
        for kind, twin in (("thailintignore-dir", "generated/twin%d.py"), ("thailintignore-glob", "pkg/twin%d_pb.py"), ("config-ignore", "vendored/twin%d.py"),
                           ("hard-excluded", "node_modules/dep/twin%d.py"), ("thailintignore-exact", "legacy/old_billing.py" if i == 0 else None)):
            if twin is None:
                continue
            tag = "%s%d" % (kind.replace("-", "")[:6], i)
            files["pkg/%s_live.py" % tag] = module(tag, "live")
            files[twin % i if "%d" in twin else twin] = module(tag, "twin")
    ign = ["generated/", "*_pb.py", "legacy/old_billing.py"]
    files[".thailintignore"] = "\n".join(ign) + "\n"
    files[".thailint.yaml"] = "ignore:\n  - \"vendored/\"\ndry:\n  enabled: true\n  min_duplicate_lines: 3\nstringly-typed:\n  min_occurrences: 2\n"
    ignored = sorted(f for f in files if f.startswith(("generated/", "vendored/", "node_modules/", "legacy/")) or f.endswith("_pb.py"))
    jobs, meta = [], []
    for cmd in ("dry", "stringly-typed"):
        for par in ([], ["--parallel"]):
            for tname, targets in (("dot", ["."]), ("dirs", ["pkg", "generated", "vendored", "legacy", "node_modules"]), ("explicit", sorted(f for f in files if f.endswith(".py")))):
                jobs.append((files, [cmd, "--format", "json"] + par, targets))
                meta.append((cmd, bool(par), tname))
    for (cmd, par, tname), o in zip(meta, runner.pmap(cross_file_job, jobs, timeout=600)):
        if not o.get("ok") or o["value"]["v"] is None:
            ctx.inconclusive_if(True, "cross-file job %s failed: %s" % ((cmd, par, tname), str(o)[:300]))
            continue
        ctx.evaluations += 1
        ctx.count("cross_file_runs")
        ctx.nontrivial(["cross-file", cmd, par, tname])
        v = o["value"]["v"]
        if v:
            from_ignored = [x for x in v if x[1] in ignored]
            key = "ignored-file-reported-by-cross-file-rule" if from_ignored else "ignored-file-contributes-to-cross-file-finding"
            ctx.discrepancy("%s:%s%s" % (key, cmd, ":parallel" if par else ""), "`%s%s` on targets %s (%d files, %d of them ignored or excluded): %d finding(s) although every block / string set occurs once outside the ignored places, e.g. %r" % (
                cmd, " --parallel" if par else "", tname, len(files) - 2, len(ignored), len(v), v[0]), {"argv": [cmd, "--format", "json"] + (["--parallel"] if par else []), "targets": tname}, files)


def run(ctx):
    ctx.rule = ("case = generated tree (hidden dirs, excluded names at any depth and as file names, look-alikes, artefacts, empty dirs) x ignore-pattern set "
                "(.thailintignore / yaml ignore / both) x targets (., sub-directory, explicit files incl. excluded/ignored ones, mixtures) x recursive flag; "
                "distinct non-trivial = cases whose reference set is non-empty and differs from the set of all files under the targets")
    ctx.assumptions = ["reference walker and matcher for the documented forms dir/, *.ext, exact path, dir/**, **/*_gen.py (the latter never with a root-level candidate)",
                       "planted markers: file-placement global_deny '.*' for every file type, a magic number in every source file with a neutral name",
                       "symlinks are not generated"]
    rng = ctx.rng()
    run_cross_file(ctx, rng)
    cases = []
    for i in range(ctx.size(500, 6000)):
        dirs, files = gen_tree(rng)
        if not files:
            continue
        pats = gen_patterns(rng, dirs, files)
        source = rng.choice(["none", "thailintignore", "yaml", "both", "json", "pyproject", "opt-config", "group-opt-config"]) if pats else "none"
        if source == "none":
            pats = []
        kind = rng.choice(["dot", "dot", "sub", "files", "mixed", "named-excluded"])
        subs = [d for d in dirs if d]
        if kind == "dot" or not subs:
            targets = ["."]
        elif kind == "sub":
            targets = [rng.choice(subs)]
        elif kind == "files":
            targets = rng.sample(sorted(files), min(len(files), rng.randint(1, 5)))
        elif kind == "mixed":
            targets = [rng.choice(subs)] + rng.sample(sorted(files), min(len(files), 2))
            t0 = targets[0]
            targets = [t0] + [f for f in targets[1:] if not f.startswith(t0 + "/")]
        else:
            cand = [f for f in files if ref_excluded(f) or ref_ignored(f, pats)] or sorted(files)
            targets = rng.sample(sorted(cand), min(len(cand), 3)) + ([rng.choice(subs)] if rng.random() < 0.5 else [])
            dirs_t = [t for t in targets if t in subs]
            targets = [t for t in targets if not any(t != dt and t.startswith(dt + "/") for dt in dirs_t)]
        cases.append({"i": i, "dirs": dirs, "files": files, "patterns": pats, "source": source, "targets": targets,
                      "recursive": rng.random() < 0.8, "kind": kind, "bom": rng.random() < 0.25,
                      # targets spelled absolutely THROUGH a sub-directory and back (/abs/proj/<sub>/../<target>)
                      "dotdot": rng.choice(subs) if subs and rng.random() < 0.15 else None})
    outs = runner.pmap(exec_case, cases, timeout=600)
    cfgnames = {".thailintignore", ".thailint.yaml", ".thailint.json", "pyproject.toml", "custom_rules.yaml"}
    for case, o in zip(cases, outs):
        if not o.get("ok"):
            ctx.inconclusive_if(True, "case failed in harness: %s" % str(o)[:300])
            continue
        v = o["value"]
        allfiles = dict(case["files"], **v["extra"])
        effective = case["patterns"]
        exp_all = ref_linted(list(allfiles), effective, case["targets"], case["recursive"])
        universe = ref_linted(list(allfiles), [], case["targets"], True) | {f for f in allfiles for t in case["targets"] if f == t or t == "." or f.startswith(t + "/")}
        for name in ("placement", "magic"):
            ctx.evaluations += 1
            r = v["res"][name]
            rep = {"argv": r["argv"], "patterns": case["patterns"], "source": case["source"], "targets": case["targets"], "recursive": case["recursive"]}
            if r["files"] is None or r["exit"] not in (0, 1):
                ctx.discrepancy("run-error:" + name, "exit %s %s" % (r["exit"], r["err"]), rep, allfiles)
                continue
            exp = exp_all if name == "placement" else {f for f in exp_all if f.endswith((".py", ".ts", ".js", ".rs"))}
            got = set(r["files"])
            ctx.count("files_judged", len(universe))
            ctx.count("kind:" + case["kind"])
            ctx.count("source:" + case["source"])
            if exp and exp != universe:
                ctx.nontrivial([case["i"], name])
            if got != exp:
                for f in sorted(got - exp)[:4]:
                    why = "hard-excluded" if ref_excluded(f) else "ignored-by-pattern" if ref_ignored(f, effective) else "outside-target-or-depth"
                    explicit = f in case["targets"]
                    key = "linted-but-%s%s" % (why, ":named-explicitly" if explicit else "")
                    if why == "ignored-by-pattern" and case["source"] == "both":
                        key += ":both-sources"
                    ctx.discrepancy(key, "%s: %s reported (%s) although the reference excludes it; patterns %s source %s targets %s recursive=%s" % (
                        name, f, why, case["patterns"], case["source"], case["targets"][:4], case["recursive"]), dict(rep, expected=sorted(exp), observed=sorted(got)), allfiles)
                for f in sorted(exp - got)[:4]:
                    pats_hit = [p for p in effective if p.endswith("/") and (f.startswith(p[:-1]) or any(c.startswith(p[:-1]) for c in f.split("/")))]
                    key = "skipped-lookalike-of-dir-pattern" if pats_hit else "skipped-file"
                    ctx.discrepancy(key, "%s: %s not linted although nothing excludes it; patterns %s source %s targets %s recursive=%s" % (
                        name, f, case["patterns"], case["source"], case["targets"][:4], case["recursive"]), dict(rep, expected=sorted(exp), observed=sorted(got)), allfiles)
    c0 = cases[0]
    ctx.sample({"dirs": c0["dirs"], "files": sorted(c0["files"]), "patterns": c0["patterns"], "source": c0["source"], "targets": c0["targets"],
                "recursive": c0["recursive"], "reference_linted": sorted(ref_linted(list(c0["files"]), c0["patterns"], c0["targets"], c0["recursive"]))})
    ctx.inconclusive_if(ctx.counters["files_judged"] < 1000, "fewer than 1000 file verdicts")
