"""C05 - configuration is honoured identically in every format and for every linter.

Monitor: boundary trace (exit code + JSON output) of linter commands on a staircase probe project under one and the
same semantic setting written through different carriers (.thailint.yaml, .thailint.json, pyproject.toml [tool.thailint],
--config file at command and group level) and key spellings (hyphen / underscore).
Oracles: enabled:false => silence; carrier/spelling equivalence; each threshold takes effect and is monotone (more
permissive never adds, stricter never removes); precedence CLI option > yaml > json > pyproject; top-level ignore in all
carriers; invalid values / unparsable files => exit 2.
"""
from __future__ import annotations

import json
import os

import yaml

from .. import runner
from ..gen import configs, staircase, triggers

BASE = {"dry": {"enabled": True, "min_duplicate_lines": 3},
        "file-placement": {"global_deny": [{"pattern": ".*thirdg\\.py$", "reason": "no"}]}}


def job(arg):
    files, pre, cmd, post, targets = arg
    d = runner.new_dir("c")
    runner.write_tree(d, files)
    r = runner.cli(pre + [cmd, "--format", "json"] + post + targets, d)
    vs = r.violations()
    return {"exit": r.exit, "v": None if vs is None else sorted([v["rule_id"], v["file_path"], v["line"], v["column"], v["message"]] for v in vs),
            "err": runner_tail(r.err), "argv": pre + [cmd, "--format", "json"] + post + targets}


def runner_tail(err):
    import re
    return re.sub(r"\x1b\[[0-9;]*m", "", err)[-300:]


def merged(*cfgs):
    out = {}
    for c in cfgs:
        for k, v in c.items():
            if isinstance(v, dict) and isinstance(out.get(k), dict):
                out[k] = dict(out[k], **v)
            else:
                out[k] = json.loads(json.dumps(v))
    return out


def sec_cfg(sec, key, v):
    """{section: {key: v}}; a dotted key names a documented sub-section (performance.string-concat-loop.enabled)."""
    if "." in key:
        a, b = key.split(".", 1)
        return {sec: {a: {b: v}}}
    return {sec: {key: v}}


class Plan:
    def __init__(self):
        self.jobs = []
        self.meta = []

    def add(self, tag, files, cmd, cfg=None, carrier="yaml-hyphen", post=None, targets=None, extra_files=None):
        fs = dict(files)
        pre, post2 = [], list(post or [])
        if cfg is not None:
            cf, pre_c, post_c = configs.carrier_files(cfg, carrier)
            fs.update(cf)
            pre, post2 = pre_c, post_c + post2
        if extra_files:
            fs.update(extra_files)
        self.jobs.append((fs, pre, cmd, post2, targets or ["."]))
        self.meta.append(tag)
        return len(self.jobs) - 1


def root_marker_job(arg):
    carrier, target, cwd_rel = arg
    base = runner.new_dir("m")
    root = os.path.join(base, "proj")  # no .git anywhere above: the configuration file itself has to mark the project root
    cfg = {"nesting": {"max_nesting_depth": 1}}
    files = {"pkg/deep/n.py": "def f(a, b):\n    if a:\n        if b:\n            return 1\n    return 0\n"}
    if carrier == "yaml":
        files[".thailint.yaml"] = yaml.safe_dump(cfg)
    elif carrier == "json":
        files[".thailint.json"] = json.dumps(cfg)
    else:
        files["pyproject.toml"] = configs.to_toml(cfg)
    runner.write_tree(root, files, git_marker=False)
    r = runner.cli(["nesting", "--format", "json", target], os.path.join(root, cwd_rel))
    vs = r.violations()
    return {"exit": r.exit, "n": None if vs is None else len(vs), "err": r.err[-200:]}


def run_root_markers(ctx):
    """Each documented configuration file marks the project root on its own (no .git): the same setting, found from a sub-directory target."""
    jobs = [(carrier, target, cwd) for carrier in ("yaml", "json", "pyproject") for (target, cwd) in (("pkg/deep/n.py", ""), ("pkg", ""), (".", ""), ("n.py", "pkg/deep"), (".", "pkg"))]
    outs = runner.pmap(root_marker_job, jobs, timeout=300)
    ref = {}
    for (carrier, target, cwd), o in zip(jobs, outs):
        if not o.get("ok"):
            ctx.inconclusive_if(True, "root-marker job failed in harness: %s" % str(o)[:200])
            continue
        ctx.evaluations += 1
        ctx.count("root_marker_cases")
        ctx.nontrivial(["root-marker", carrier, target, cwd])
        v = o["value"]
        if v["n"] != 1 or v["exit"] != 1:
            ctx.discrepancy("config-not-found-from-subdirectory:%s" % carrier, "project without .git, nesting.max_nesting_depth=1 in the %s carrier, `thailint nesting %s` from <root>/%s: exit %s, %s violation(s) (expected 1: the setting is in effect)" % (
                carrier, target, cwd, v["exit"], v["n"]), {"argv": ["nesting", "--format", "json", target], "cwd": cwd, "carrier": carrier}, {})


def run(ctx):
    ctx.rule = ("case = (command, setting, value, carrier, key spelling) on the staircase + trigger project; distinct non-trivial = every such tuple whose "
                "reference output (same setting through .thailint.yaml with hyphens) differs from the default-configuration output, plus every enabled:false / "
                "precedence / ignore / invalid-input case")
    ctx.assumptions = ["the staircase project contains constructs on both sides of every swept value", "carrier equivalence is relational (no absolute oracle needed)",
                       "documented section names per docs/<linter>-linter.md; 'invalid' values are those the linter's own validation rejects through .thailint.yaml"]
    rng = ctx.rng()
    run_root_markers(ctx)
    stair = staircase.files()
    trig = {k: v for k, v in triggers.files("g").items() if k != ".thailint.yaml"}
    proj = dict(stair, **trig)
    carriers = configs.CARRIERS
    P = Plan()
    idx = {}
    # ---- defaults --------------------------------------------------------------------------------------------------
    cmds = triggers.CMDS
    for c in cmds:
        idx[("default", c)] = P.add(("default", c), proj, c, BASE, "yaml-hyphen")
    # ---- enabled: false in every carrier -----------------------------------------------------------------------------
    fp_rules = {"file-placement": {"global_deny": [{"pattern": ".*thirdg\\.py$", "reason": "no"}]}}
    for c in cmds:
        sec = staircase.SECTIONS[c]
        cs = carriers if not ctx.quick else rng.sample(carriers, 4)
        for k in cs:
            cfg = merged(BASE, fp_rules, {sec: {"enabled": False}})
            idx[("disabled", c, k)] = P.add(("disabled", c, k), proj, c, cfg, k)
        idx[("enabled-ref", c)] = P.add(("enabled-ref", c), proj, c, merged(BASE, fp_rules), "yaml-hyphen")
    # ---- sweeps (yaml) + carrier equivalence at one value --------------------------------------------------------------
    for (c, sec, key, values) in staircase.SWEEPS:
        for v in values:
            idx[("sweep", c, sec + ":" + key, json.dumps(v))] = P.add(("sweep", c, sec + ":" + key, v), proj, c, merged(BASE, sec_cfg(sec, key, v)), "yaml-hyphen")
        mid = values[len(values) // 2] if len(values) > 2 else values[-1]
        cs = carriers if not ctx.quick else rng.sample(carriers[1:], 4)
        for k in cs:
            idx[("carrier", c, sec + ":" + key, k)] = P.add(("carrier", c, sec + ":" + key, k, mid), proj, c, merged(BASE, sec_cfg(sec, key, mid)), k)
    # ---- precedence -------------------------------------------------------------------------------------------------
    import yaml
    def nest(v):
        return {"nesting": {"max_nesting_depth": v}}
    idx[("prec", "yaml>json")] = P.add(("prec", "yaml>json"), proj, "nesting", None, extra_files={
        ".thailint.yaml": yaml.safe_dump(nest(3)), ".thailint.json": json.dumps(nest(6))})
    idx[("prec", "json>pyproject")] = P.add(("prec", "json>pyproject"), proj, "nesting", None, extra_files={
        ".thailint.json": json.dumps(nest(6)), "pyproject.toml": configs.to_toml(nest(2))})
    idx[("prec", "yaml>pyproject")] = P.add(("prec", "yaml>pyproject"), proj, "nesting", None, extra_files={
        ".thailint.yaml": yaml.safe_dump(nest(3)), "pyproject.toml": configs.to_toml(nest(6))})
    cli_opts = [("nesting", "nesting", "max_nesting_depth", "--max-depth", 6, 2), ("srp", "srp", "max_methods", "--max-methods", 9, 3),
                ("srp", "srp", "max_loc", "--max-loc", 40, 10), ("dry", "dry", "min_duplicate_lines", "--min-lines", 6, 3),
                ("pipeline", "collection-pipeline", "min_continues", "--min-continues", 3, 1)]
    for (c, sec, key, opt, cli_v, file_v) in cli_opts:
        idx[("prec-cli", c, key)] = P.add(("prec-cli", c, key), proj, c, merged(BASE, {sec: {key: file_v}}), "yaml-hyphen", post=[opt, str(cli_v)])
        idx[("prec-cli-ref", c, key)] = P.add(("prec-cli-ref", c, key), proj, c, merged(BASE, {sec: {key: cli_v}}), "yaml-hyphen")
        if c in ("nesting", "srp"):
            langs = ["python", "typescript", "javascript", "rust"]
            over = merged(BASE, {sec: dict({key: file_v}, **{l: {key: file_v} for l in langs})})
            idx[("prec-cli-lang", c, key)] = P.add(("prec-cli-lang", c, key), proj, c, over, "yaml-hyphen", post=[opt, str(cli_v)])
    # language override applies to its language only
    idx[("lang-override",)] = P.add(("lang-override",), proj, "nesting", merged(BASE, {"nesting": {"max_nesting_depth": 6, "python": {"max_nesting_depth": 2}}}), "yaml-hyphen")
    # a language section that sets only one threshold leaves the other one to the top-level value
    for k in (carriers if not ctx.quick else ["yaml-hyphen", "json-underscore", "pyproject-hyphen", "opt-yaml"]):
        idx[("partial-lang", "ref", k)] = P.add(("partial-lang", "ref", k), proj, "srp", merged(BASE, {"srp": {"max_methods": 3}}), k)
        for lang in ("python", "typescript", "rust"):
            idx[("partial-lang", lang, k)] = P.add(("partial-lang", lang, k), proj, "srp", merged(BASE, {"srp": {"max_methods": 3, lang: {"max_loc": 100000}}}), k)
    # ---- top-level ignore in every carrier ---------------------------------------------------------------------------
    for k in carriers:
        for c in ("nesting", "magic-numbers", "srp"):
            idx[("ignore", c, k)] = P.add(("ignore", c, k), proj, c, merged(BASE, {"ignore": ["st/nest.py", "st/nums.py", "st/cls.py"]}), k)
    # ... and a directory pattern for every command (commands load an explicit --config file in their own ways)
    for c in cmds:
        if c == "file-placement":
            continue
        for k in (carriers if not ctx.quick else ["yaml-hyphen", "json-hyphen", "pyproject-hyphen", "opt-yaml", "group-opt-yaml"]):
            if k in carriers:
                idx[("ignore-dir", c, k)] = P.add(("ignore-dir", c, k), proj, c, merged(BASE, {"ignore": ["st/"]}), k)
    # ---- invalid values and unparsable files ---------------------------------------------------------------------------
    invalid = [("nesting", "nesting", "max_nesting_depth", 0), ("nesting", "nesting", "max_nesting_depth", -1), ("srp", "srp", "max_methods", 0),
               ("srp", "srp", "max_loc", 0), ("dry", "dry", "min_duplicate_lines", 0), ("dry", "dry", "min_occurrences", 0),
               ("dry", "dry", "storage_mode", "bogus"), ("stringly-typed", "stringly-typed", "min_values_for_enum", 1),
               ("magic-numbers", "magic-numbers", "max_small_integer", 0), ("stringly-typed", "stringly-typed", "min_occurrences", 0)]
    for (c, sec, key, v) in invalid:
        for k in (carriers if not ctx.quick else ["yaml-hyphen"] + rng.sample(carriers[1:], 3)):
            idx[("invalid", c, key, json.dumps(v), k)] = P.add(("invalid", c, key, v, k), proj, c, merged(BASE, {sec: {key: v}}), k)
    # the same invalid values given as command-line threshold options
    for (c, opt, v) in (("nesting", "--max-depth", 0), ("srp", "--max-methods", 0), ("srp", "--max-loc", 0), ("dry", "--min-lines", 0), ("pipeline", "--min-continues", 0),
                        ("nesting", "--max-depth", -1), ("srp", "--max-methods", -3)):
        idx[("invalid-cli", c, opt, v)] = P.add(("invalid-cli", c, opt, v), proj, c, BASE, "yaml-hyphen", post=[opt, str(v)])
    broken = {"yaml": (".thailint.yaml", "nesting:\n  max_nesting_depth: [3\n"), "json": (".thailint.json", '{"nesting": {"max_nesting_depth": 3,'),
              "pyproject": ("pyproject.toml", "[tool.thailint.nesting\nmax_nesting_depth = 3\n"),
              "yaml-tab": (".thailint.yaml", "nesting:\n\t- max_nesting_depth: 3\n\t  x: : y\n"),
              "json-nonmapping": (".thailint.json", "[1, 2, 3]"), "yaml-nonmapping": (".thailint.yaml", "- just\n- a list\n")}
    for name, (fname, text) in broken.items():
        idx[("broken", name)] = P.add(("broken", name), proj, "nesting", None, extra_files={fname: text})
    idx[("broken", "opt-yaml")] = P.add(("broken", "opt-yaml"), proj, "nesting", None, extra_files={"bad.yaml": "a: [1,\n"}, post=["--config", "bad.yaml"])
    idx[("broken", "opt-json")] = P.add(("broken", "opt-json"), proj, "nesting", None, extra_files={"bad.json": '{"a": '}, post=["--config", "bad.json"])
    # -------------------------------------------------------------------------------------------------------------------
    outs = runner.pmap(job, P.jobs, timeout=900)
    R = []
    for tag, o in zip(P.meta, outs):
        ctx.evaluations += 1
        if not o.get("ok"):
            ctx.inconclusive_if(True, "job %s failed in harness: %s" % (tag, str(o)[:300]))
            return
        R.append(o["value"])

    def res(key):
        return R[idx[key]]

    def rep(i):
        return {"argv": R[i]["argv"]}

    def vset(r):
        return None if r["v"] is None else {tuple(x[:3]) for x in r["v"]}

    # defaults must lint successfully
    for c in cmds:
        r = res(("default", c))
        ctx.inconclusive_if(r["v"] is None or r["exit"] not in (0, 1), "default run of %s failed: %s" % (c, r["err"]))
        ctx.inconclusive_if(r["v"] is not None and not r["v"], "probe project does not trigger %s" % c)
    if ctx.inconclusive:
        return
    # enabled: false
    for key, i in idx.items():
        if key[0] != "disabled":
            continue
        _, c, k = key
        r = R[i]
        ctx.count("enabled_false_cases")
        ctx.nontrivial(["disabled", c, k])
        ref = res(("enabled-ref", c))
        if not ref["v"]:
            ctx.count("enabled_false_not_judged_no_reference")
            continue
        if r["v"] is None or r["exit"] not in (0, 1):
            ctx.discrepancy("enabled-false-error:%s:%s" % (c, k.split("-")[0]), "`%s` with %s.enabled=false via %s: exit %s %s" % (c, staircase.SECTIONS[c], k, r["exit"], r["err"]), rep(i), P.jobs[i][0])
        elif r["v"]:
            grp = "opt" if "opt" in k else k.split("-")[0]
            ctx.discrepancy("enabled-false-ignored:%s:%s" % (c, "group-opt" if k.startswith("group") else "any-carrier"),
                            "`%s`: %s.enabled=false via %s still yields %d violations (e.g. %r)" % (c, staircase.SECTIONS[c], k, len(r["v"]), r["v"][0][:3]), rep(i), P.jobs[i][0])
    # sweeps
    for (c, sec, key, values) in staircase.SWEEPS:
        sets = [vset(res(("sweep", c, sec + ":" + key, json.dumps(v)))) for v in values]
        if key in staircase.MESSAGE_LEVEL and all(x is not None for x in sets):
            # settings whose documented effect is on wording / extra notices at the same place: compare the messages too
            sets = [{(x[0], x[1], x[2], x[4]) for x in res(("sweep", c, sec + ":" + key, json.dumps(v)))["v"]} for v in values]
        if c == "dry" and all(x is not None for x in sets):
            # DRY windows start at different lines for different window sizes: compare the covered lines instead
            import re as _re
            cov = []
            for v in values:
                lines_cov = set()
                for row in res(("sweep", c, sec + ":" + key, json.dumps(v)))["v"]:
                    m = _re.match(r"Duplicate code \((\d+) lines", row[4])
                    n = int(m.group(1)) if m else 1
                    lines_cov |= {(row[0], row[1], ln) for ln in range(row[2], row[2] + n)}
                cov.append(lines_cov)
            sets = cov
        if any(s is None for s in sets):
            bad = [v for v, s in zip(values, sets) if s is None]
            i = idx[("sweep", c, sec + ":" + key, json.dumps(bad[0]))]
            ctx.discrepancy("sweep-error:%s.%s" % (sec, key), "`%s` with %s.%s=%r: exit %s %s" % (c, sec, key, bad[0], R[i]["exit"], R[i]["err"]), rep(i), P.jobs[i][0])
            continue
        ctx.count("sweeps")
        ctx.nontrivial(["sweep", c, key])
        i0 = idx[("sweep", c, sec + ":" + key, json.dumps(values[0]))]
        if sets[0] == sets[-1]:
            ctx.discrepancy("setting-no-effect:%s.%s" % (sec, key), "`%s`: %s.%s swept over %r never changes the output (%d violations)" % (c, sec, key, values, len(sets[0])), rep(i0), P.jobs[i0][0])
            continue
        for fname, pat in (staircase.FAMILIES.get((sec, key)) or {}).items():
            import re as _re

            def in_family(x, pat=pat):
                if pat.startswith("."):
                    return x[1].endswith(pat)
                src = proj.get(x[1], "").split("\n")
                return 0 < x[2] <= len(src) and _re.search(pat, src[x[2] - 1]) is not None
            first, last = {x for x in sets[0] if in_family(x)}, {x for x in sets[-1] if in_family(x)}
            ctx.count("sweep_families_checked")
            if first == last:
                ctx.discrepancy("setting-no-effect-on-family:%s.%s:%s" % (sec, key, fname), "`%s`: %s.%s swept over %r never changes the verdicts of the %s constructs (%d flagged at both ends)" % (
                    c, sec, key, values, fname, len(first)), rep(i0), P.jobs[i0][0])
        for a in range(len(values) - 1):
            if c == "dry":
                # a duplicate reported with the larger (more permissive) window must overlap lines reported with the smaller window
                import re as _re

                def intervals(v):
                    out = []
                    for row in res(("sweep", c, sec + ":" + key, json.dumps(v)))["v"]:
                        m = _re.match(r"Duplicate code \((\d+) lines", row[4])
                        out.append((row[1], row[2], row[2] + (int(m.group(1)) if m else 1) - 1))
                    return out
                strict_cov = {}
                for (fp, lo, hi) in intervals(values[a]):
                    strict_cov.setdefault(fp, set()).update(range(lo, hi + 1))
                fresh = [iv for iv in intervals(values[a + 1]) if not (set(range(iv[1], iv[2] + 1)) & strict_cov.get(iv[0], set()))]
                if fresh:
                    ctx.discrepancy("not-monotone:%s.%s" % (sec, key), "`%s`: %s.%s %r -> %r (more permissive) reports duplicates at %r that the stricter run does not touch" % (
                        c, sec, key, values[a], values[a + 1], fresh[:3]), rep(i0), P.jobs[i0][0])
                continue
            if key in staircase.MESSAGE_LEVEL:
                continue
            if not sets[a + 1] <= sets[a]:
                ctx.discrepancy("not-monotone:%s.%s" % (sec, key), "`%s`: %s.%s %r -> %r (more permissive) adds %r" % (
                    c, sec, key, values[a], values[a + 1], sorted(sets[a + 1] - sets[a])[:3]), rep(i0), P.jobs[i0][0])
    # carrier equivalence
    for key, i in idx.items():
        if key[0] != "carrier":
            continue
        _, c, skey, k = key
        sweep = [s for s in staircase.SWEEPS if s[0] == c and s[1] + ":" + s[2] == skey][0]
        values = sweep[3]
        mid = values[len(values) // 2] if len(values) > 2 else values[-1]
        ref = res(("sweep", c, skey, json.dumps(mid)))
        dflt = res(("default", c))
        r = R[i]
        ctx.count("carrier_cases")
        if ref["v"] is None:
            continue
        if ref["v"] != dflt["v"]:
            ctx.nontrivial(["carrier", c, skey, k])
        if r["v"] != ref["v"] or r["exit"] != ref["exit"]:
            kind = "group-opt" if k.startswith("group") else k.split("-")[0] if not k.startswith("opt") else "opt"
            spelled = "underscore" if k.endswith("underscore") else "hyphen"
            same_as_default = r["v"] == dflt["v"]
            ctx.discrepancy("carrier-differs:%s.%s:%s%s" % (sweep[1], sweep[2], kind, ":ignored" if same_as_default else ""),
                            "`%s` %s.%s=%r via %s (%s) differs from the same setting in .thailint.yaml%s: exit %s vs %s, %s vs %s violations %s" % (
                                c, sweep[1], sweep[2], mid, k, spelled, " and equals the default-configuration output" if same_as_default else "",
                                r["exit"], ref["exit"], None if r["v"] is None else len(r["v"]), len(ref["v"]), r["err"][-120:]), rep(i), P.jobs[i][0])
    # precedence
    def same(a, b):
        return a["v"] == b["v"] and a["exit"] == b["exit"]
    n3 = res(("sweep", "nesting", "nesting:max_nesting_depth", "3"))
    n6 = res(("sweep", "nesting", "nesting:max_nesting_depth", "6"))
    for name, want in (("yaml>json", n3), ("json>pyproject", n6), ("yaml>pyproject", n3)):
        i = idx[("prec", name)]
        ctx.count("precedence_cases")
        ctx.nontrivial(["prec", name])
        if not same(R[i], want):
            ctx.discrepancy("precedence:%s" % name, "two carriers present (%s): effective max_nesting_depth is not the documented winner (%s violations vs %s expected) %s" % (
                name, None if R[i]["v"] is None else len(R[i]["v"]), len(want["v"]), R[i]["err"][-100:]), rep(i), P.jobs[i][0])
    for (c, sec, key, opt, cli_v, file_v) in cli_opts:
        i, j = idx[("prec-cli", c, key)], idx[("prec-cli-ref", c, key)]
        ctx.count("precedence_cases")
        ctx.nontrivial(["prec-cli", c, key])
        if not same(R[i], R[j]):
            ctx.discrepancy("precedence-cli:%s" % opt, "`%s %s %s` with %s.%s=%s in .thailint.yaml is not judged with the command-line value (%s vs %s violations)" % (
                c, opt, cli_v, sec, key, file_v, None if R[i]["v"] is None else len(R[i]["v"]), None if R[j]["v"] is None else len(R[j]["v"])), rep(i), P.jobs[i][0])
        if ("prec-cli-lang", c, key) in idx:
            i2 = idx[("prec-cli-lang", c, key)]
            ctx.count("precedence_cases")
            if not same(R[i2], R[j]):
                a, b = vset(R[i2]) or set(), vset(R[j]) or set()
                langs_off = sorted({x[1].rsplit(".", 1)[-1] for x in a ^ b})
                ctx.discrepancy("precedence-cli-vs-language-override:%s:%s" % (opt, "+".join(langs_off)),
                                "`%s %s %s` loses to per-language overrides %s.<lang>.%s=%s for files of type %s" % (c, opt, cli_v, sec, key, file_v, langs_off), rep(i2), P.jobs[i2][0])
    i = idx[("lang-override",)]
    got = vset(R[i])
    want_py = {x for x in vset(res(("sweep", "nesting", "nesting:max_nesting_depth", "2"))) if x[1].endswith(".py")}
    want_other = {x for x in vset(n6) if not x[1].endswith(".py")}
    ctx.count("language_override_cases")
    if got != want_py | want_other:
        ctx.discrepancy("language-override", "nesting.python.max_nesting_depth=2 with top-level 6: got %d violations, expected python judged at 2 and others at 6 (%d)" % (
            len(got or ()), len(want_py | want_other)), rep(i), P.jobs[i][0])
    for key, i in idx.items():
        if key[0] != "partial-lang" or key[1] == "ref":
            continue
        _, lang, k = key
        ctx.count("language_override_cases")
        ctx.nontrivial(["partial-lang", lang, k])
        if not same(R[i], res(("partial-lang", "ref", k))):
            ctx.discrepancy("partial-language-override-drops-top-level:%s" % lang, "srp.max_methods=3 with srp.%s.max_loc set (via %s): files of that language are no longer judged with max_methods 3 (%s vs %s violations)" % (
                lang, k, None if R[i]["v"] is None else len(R[i]["v"]), len(res(("partial-lang", "ref", k))["v"] or [])), rep(i), P.jobs[i][0])
    # top-level ignore
    for key, i in idx.items():
        if key[0] != "ignore":
            continue
        _, c, k = key
        r = R[i]
        ctx.count("ignore_cases")
        ctx.nontrivial(["ignore", c, k])
        dflt = vset(res(("default", c)))
        ignored_files = {"st/nest.py", "st/nums.py", "st/cls.py"}
        want = {x for x in dflt if x[1] not in ignored_files}
        if r["v"] is None or vset(r) != want:
            still = sorted(x for x in (vset(r) or set()) if x[1] in ignored_files)[:2]
            kind = "group-opt" if k.startswith("group") else "opt" if k.startswith("opt") else k.split("-")[0]
            ctx.discrepancy("top-level-ignore-not-honoured:%s" % kind, "`%s` with top-level ignore list via %s: files of the list still reported %r (exit %s %s)" % (
                c, k, still, r["exit"], r["err"][-100:]), rep(i), P.jobs[i][0])
    for key, i in idx.items():
        if key[0] != "ignore-dir":
            continue
        _, c, k = key
        r = R[i]
        ctx.count("ignore_dir_cases")
        dflt = vset(res(("default", c)))
        want = {x for x in dflt if not x[1].startswith("st/")}
        if want != dflt:
            ctx.nontrivial(["ignore-dir", c, k])
        got = vset(r)
        still = sorted(x for x in (got or set()) if x[1].startswith("st/"))[:2]
        if r["v"] is None or still or (c not in ("dry", "stringly-typed") and got != want):
            kind = "group-opt" if k.startswith("group") else "opt" if k.startswith("opt") else k.split("-")[0]
            ctx.discrepancy("top-level-ignore-not-honoured:%s:%s" % (kind, c), "`%s` with top-level ignore ['st/'] via %s: files under st/ still reported %r; other findings %s (exit %s %s)" % (
                c, k, still, "unchanged" if got is not None and {x for x in got if not x[1].startswith("st/")} == want else "changed", r["exit"], r["err"][-100:]), rep(i), P.jobs[i][0])
    # invalid values: whatever .thailint.yaml rejects must be rejected everywhere; documented non-positive limits must be rejected
    documented_invalid = {("nesting", "max_nesting_depth"), ("srp", "max_methods"), ("srp", "max_loc"), ("dry", "min_duplicate_lines"), ("dry", "min_occurrences")}
    for key, i in idx.items():
        if key[0] != "invalid":
            continue
        _, c, skey, v, k = key
        r = R[i]
        ctx.count("invalid_cases")
        ctx.nontrivial(["invalid", c, skey, v, k])
        yaml_ref = res(("invalid", c, skey, v, "yaml-hyphen"))
        must = (c, skey) in documented_invalid or yaml_ref["exit"] == 2
        if must and r["exit"] != 2:
            kind = "group-opt" if k.startswith("group") else "opt" if k.startswith("opt") else k.split("-")[0]
            ctx.discrepancy("invalid-value-accepted:%s.%s:%s" % (c, skey, kind), "`%s` with invalid %s=%s via %s ends with exit %s instead of 2" % (c, skey, v, k, r["exit"]), rep(i), P.jobs[i][0])
    for key, i in idx.items():
        if key[0] != "invalid-cli":
            continue
        ctx.count("invalid_cases")
        ctx.nontrivial(["invalid-cli", key[1], key[2], key[3]])
        if R[i]["exit"] != 2:
            ctx.discrepancy("invalid-cli-value-accepted:%s" % key[2], "`%s %s %s` ends with exit %s instead of 2 (%s violations reported)" % (
                key[1], key[2], key[3], R[i]["exit"], None if R[i]["v"] is None else len(R[i]["v"])), rep(i), P.jobs[i][0])
    for key, i in idx.items():
        if key[0] != "broken":
            continue
        ctx.count("unparsable_cases")
        ctx.nontrivial(["broken", key[1]])
        if R[i]["exit"] != 2:
            ctx.discrepancy("unparsable-config-accepted:%s" % key[1], "unparsable configuration (%s) ends with exit %s instead of 2 (%d violations reported)" % (
                key[1], R[i]["exit"], len(R[i]["v"] or [])), rep(i), P.jobs[i][0])
    ctx.sample({"sweep": list(staircase.SWEEPS[0]), "carriers": carriers, "probe_files": sorted(stair)})
    ctx.inconclusive_if(ctx.counters["carrier_cases"] < 40 or ctx.counters["enabled_false_cases"] < 40, "too few carrier cases")
