"""C20 - config tooling never loses user settings and only writes validated values.

Monitors: M-RUN with file bytes before/after every command, exit codes and stdout.
 (a) init-config merge histories on generated valid .thailint.yaml files: state model = yaml.safe_load(before);
     after each run every pre-existing key path keeps its value, new top-level keys are linter sections, the file
     parses, a second run is byte-identical, and the user's thresholds stay in effect (decoded on the staircase probe).
 (b) every preset's generated file parses and every linter command accepts it (exit 0/1).
 (c) config set/get/reset histories against a dict model with the documented value conversion: a rejected set leaves the
     file byte-identical, an accepted value is printed back by `config get` and survives an independent YAML/JSON reload.
"""
from __future__ import annotations

import json
import math
import os

import yaml

from .. import runner
from ..gen import staircase, triggers

PRESETS = ["strict", "standard", "lenient"]
VALIDATED = {"log_level": (["DEBUG", "INFO", "WARNING", "ERROR", "CRITICAL"], ["bogus", "debug", "", "5", "TRACE"]),
             "output_format": (["text", "json", "yaml"], ["xml", "TEXT", "7"]),
             "max_retries": (["0", "3", "17"], ["-1", "2.5", "many", "-0.5"]),
             "timeout": (["1", "2.5", "30", "0.1"], ["0", "-3", "soon", "-0.0"]),
             "app_name": (["demo", "my app", "ünï"], ["", "   "])}
FREE_VALUES = ["yes", "no", "null", "~", "1:30", "0x10", "1e5", "nan", "inf", "", "ünïcødé ✓", "it's", 'say "hi"', "# not a comment", "key: value", "[1, 2]", "{a: 1}",
               "007", "1_000", "+5", " padded ", "true", "False", "3.0", "-", "*", "&anchor", "!tag", "%percent", "@at", "`tick`", "multi\nline", "tab\there", "\\n literal"]


def convert(value: str):
    """Documented conversion: true/false -> bool, int, float, else string."""
    if value.lower() in ("true", "false"):
        return value.lower() == "true"
    for conv in (int, float):
        try:
            return conv(value)
        except ValueError:
            pass
    return value


def valid(key, v):
    if key == "log_level":
        return v in VALIDATED["log_level"][0]
    if key == "output_format":
        return v in VALIDATED["output_format"][0]
    if key == "max_retries":
        return isinstance(v, int) and v >= 0
    if key == "timeout":
        return isinstance(v, (int, float)) and v > 0
    if key == "app_name":
        return isinstance(v, str) and bool(v.strip())
    return True


def same(a, b):
    if isinstance(a, float) and isinstance(b, float) and math.isnan(a) and math.isnan(b):
        return True
    return type(a) is type(b) and a == b or (isinstance(a, (int, float)) and isinstance(b, (int, float)) and not isinstance(a, bool) and not isinstance(b, bool) and a == b and type(a) is type(b))


def read(path):
    try:
        with open(path, "rb") as f:
            return f.read()
    except OSError:
        return None


# ----------------------------------------------------------------------------- (c) set/get/reset histories
def setget_history(case):
    d = runner.new_dir("g")
    cfgname = case["cfgname"]
    path = os.path.join(d, cfgname)
    if case["initial"] is not None:
        with open(path, "w", encoding="utf-8") as f:
            f.write(case["initial"])
    events = []
    for op in case["ops"]:
        before = read(path)
        if op[0] == "set":
            argv = ["--config", cfgname, "config", "set", op[1], op[2]]
        elif op[0] == "get":
            argv = ["--config", cfgname, "config", "get", op[1]]
        else:
            argv = ["--config", cfgname, "config", "reset", "--yes"]
        r = runner.cli(argv, d)
        after = read(path)
        loaded, load_err = None, None
        if after is not None:
            try:
                loaded = yaml.safe_load(after.decode("utf-8")) if cfgname.endswith(".yaml") else json.loads(after.decode("utf-8"))
            except Exception as e:  # noqa: BLE001
                load_err = "%s: %s" % (type(e).__name__, str(e)[:100])
        events.append({"op": list(op), "argv": argv, "exit": r.exit, "out": r.out, "err": r.err[-200:], "changed": before != after,
                       "existed_before": before is not None, "loaded": loaded if isinstance(loaded, dict) else None, "load_err": load_err,
                       "loaded_repr": {k: repr(v) for k, v in loaded.items()} if isinstance(loaded, dict) else None})
    return events


# a value that compares equal to the one already there (or to the built-in default) but is another value: 1 / true, 0 / false, 5 / 5.0, the default itself
EQUAL_BUT_DIFFERENT = [[("set", "output_format", "text")], [("set", "log_level", "INFO")], [("set", "custom_key", "1"), ("set", "custom_key", "true")],
                       [("set", "custom_key", "0"), ("set", "custom_key", "false")], [("set", "greeting", "5"), ("set", "greeting", "5.0")],
                       [("set", "timeout", "30"), ("set", "timeout", "30.0")], [("set", "custom_key", "true"), ("set", "custom_key", "1")]]


def gen_setget(rng, i):
    ops = []
    pair = EQUAL_BUT_DIFFERENT[i % len(EQUAL_BUT_DIFFERENT)]
    ops += list(pair) + [("get", pair[-1][1])]
    for _ in range(rng.randint(8, 25)):
        r = rng.random()
        if r < 0.45:
            key = rng.choice(sorted(VALIDATED))
            good, bad = VALIDATED[key]
            ops.append(("set", key, rng.choice(good if rng.random() < 0.55 else bad)))
        elif r < 0.7:
            ops.append(("set", rng.choice(["greeting", "custom_key", "nested_like.key", "version", "log-level", "max-retries", "output-format"]),
                        rng.choice(FREE_VALUES + ["INVALID", "-"])))
        elif r < 0.93:
            ops.append(("get", rng.choice(sorted(VALIDATED) + ["greeting", "custom_key", "version", "missing_key"])))
        else:
            ops.append(("reset",))
    fmt = rng.choice(["cfg.yaml", "cfg.json"])
    init = rng.choice([None, None, "minimal"])
    initial = None
    if init == "minimal":
        doc = {"app_name": "seeded", "log_level": "WARNING", "greeting": "hello there"}
        initial = yaml.safe_dump(doc) if fmt.endswith(".yaml") else json.dumps(doc)
    return {"id": "sg%d" % i, "cfgname": fmt, "ops": ops, "initial": initial}


def check_setget(ctx, case, events):
    DEFAULTS = {"app_name": "{{PROJECT_NAME}}", "version": "0.1.0", "log_level": "INFO", "output_format": "text", "greeting": "Hello", "max_retries": None, "timeout": None}
    model = None  # unknown until the first successful write; then the dict of keys written through the tool
    written = {}
    if case["initial"]:
        written = yaml.safe_load(case["initial"]) if case["cfgname"].endswith(".yaml") else json.loads(case["initial"])
    for k, ev in enumerate(events):
        ctx.evaluations += 1
        op = ev["op"]
        rep = {"history": case["id"], "step": k, "argv": ev["argv"], "ops_so_far": [e["op"] for e in events[:k + 1]]}
        files = {case["cfgname"] + ".initial": case["initial"] or ""}
        if "Error loading configuration" in ev["err"] and ev["exit"] != 0:
            accepted = [e["op"] for e in events[:k] if e["op"][0] == "set" and e["exit"] == 0]
            ctx.discrepancy("config-unloadable-after-accepted-set", "%s step %d: the file written by accepted commands no longer loads (%s); last accepted sets: %r" % (
                case["id"], k, ev["err"].strip()[-120:], accepted[-3:]), rep, files)
            return
        if op[0] == "set":
            key, raw = op[1].replace("-", "_"), op[2]
            if raw.startswith("-") and ev["exit"] == 2:
                ctx.count("set_usage_error")
                if ev["changed"]:
                    ctx.discrepancy("usage-error-modified-file", "%s step %d: click usage error but the file changed" % (case["id"], k), rep, files)
                continue
            val = convert(raw)
            candidate = dict(written, **{key: val})
            ok = all(valid(kk, vv) for kk, vv in candidate.items())
            ctx.count("set_accepted_expected" if ok else "set_rejected_expected")
            ctx.nontrivial(["set", key, raw, ok])
            if ev["exit"] != 0:
                if ev["changed"]:
                    ctx.discrepancy("rejected-set-modified-file", "%s step %d: `config set %s %r` exit %s but the file bytes changed" % (case["id"], k, key, raw, ev["exit"]), rep, files)
                if ok:
                    ctx.discrepancy("valid-value-rejected:%s" % key, "%s step %d: `config set %s %r` (valid) rejected: %s" % (case["id"], k, key, raw, ev["err"]), rep, files)
                continue
            if not ok:
                ctx.discrepancy("invalid-value-written:%s" % key, "%s step %d: `config set %s %r` exits 0 although the value does not pass validation; file now has %s=%s" % (
                    case["id"], k, key, raw, key, (ev["loaded_repr"] or {}).get(key)), rep, files)
            written[key] = val
            if ev["load_err"] or ev["loaded"] is None:
                ctx.discrepancy("written-file-unparsable:%s" % case["cfgname"].rsplit(".", 1)[1], "%s step %d: after `config set %s %r` the file does not load with an independent parser: %s" % (case["id"], k, key, raw, ev["load_err"]), rep, files)
                continue
            got = ev["loaded"].get(key, "<missing>")
            if not same(got, val):
                ctx.discrepancy("round-trip-changes-value:%s" % case["cfgname"].rsplit(".", 1)[1], "%s step %d: set %s %r (-> %r) but the saved file reloads as %r" % (case["id"], k, key, raw, val, got), rep, files)
            for kk, vv in written.items():
                if kk in ev["loaded"] and not same(ev["loaded"][kk], vv):
                    ctx.discrepancy("other-key-changed", "%s step %d: key %s was %r, file now has %r" % (case["id"], k, kk, vv, ev["loaded"][kk]), rep, files)
                elif kk not in ev["loaded"]:
                    ctx.discrepancy("other-key-lost", "%s step %d: key %s=%r disappeared from the file" % (case["id"], k, kk, vv), rep, files)
        elif op[0] == "get":
            key = op[1] if op[1] in written else op[1].replace("-", "_")
            ctx.count("get_ops")
            if ev["changed"]:
                ctx.discrepancy("get-modified-file", "%s step %d: config get changed the file" % (case["id"], k), rep, files)
            if key in written and ev["exit"] != 0 and ("rror" in ev["err"] or "nvalid" in ev["err"]):
                ctx.discrepancy("config-unloadable-after-accepted-set", "%s step %d: `config get %s` fails (exit %s: %s) although every earlier set was accepted: %r" % (
                    case["id"], k, key, ev["exit"], ev["err"][-120:], [e["op"] for e in events[:k] if e["op"][0] == "set" and e["exit"] == 0][-3:]), rep, files)
                continue
            if key in written:
                want = str(written[key])
                ctx.nontrivial(["get", key, want])
                if ev["exit"] != 0 or ev["out"].rstrip("\n") != want:
                    if isinstance(written[key], str) and "\n" in written[key] and ev["out"].rstrip("\n") == want.rstrip("\n"):
                        continue
                    ctx.discrepancy("get-differs-from-set", "%s step %d: `config get %s` printed %r (exit %s), accepted value was %r" % (case["id"], k, key, ev["out"][:80], ev["exit"], want), rep, files)
        else:
            ctx.count("reset_ops")
            if ev["exit"] == 0:
                written = {"app_name": "{{PROJECT_NAME}}", "version": "0.1.0", "log_level": "INFO", "output_format": "text", "greeting": "Hello"}
                if ev["loaded"] is None:
                    ctx.discrepancy("reset-unparsable", "%s step %d: file after reset does not load" % (case["id"], k), rep, files)
                else:
                    for kk, vv in written.items():
                        if ev["loaded"].get(kk) != vv:
                            ctx.discrepancy("reset-not-defaults", "%s step %d: after reset %s=%r" % (case["id"], k, kk, ev["loaded"].get(kk)), rep, files)


# ----------------------------------------------------------------------------- (a) init-config merge
SECTION_VALUES = {
    "nesting": lambda r: {"enabled": True, "max_nesting_depth": r.randint(1, 6)},
    "srp": lambda r: {"enabled": True, "max_methods": r.randint(2, 11), "max_loc": r.choice([10, 25, 60])},
    "magic-numbers": lambda r: {"enabled": True, "allowed_numbers": sorted(r.sample([0, 1, 6, 7, 8, 9, 11, 12, 15, 20], 4)), "max_small_integer": r.choice([3, 9, 16])},
    "dry": lambda r: {"enabled": True, "min_duplicate_lines": r.randint(2, 6), "min_occurrences": r.randint(2, 3)},
    "file-placement": lambda r: {"global_deny": [{"pattern": ".*\\.tmp$", "reason": "no temp files"}]},
    "stringly-typed": lambda r: {"enabled": r.random() < 0.8, "min_occurrences": r.randint(2, 4)},
    "method-property": lambda r: {"enabled": True, "max_body_statements": r.randint(1, 5)},
    "stateless-class": lambda r: {"enabled": True, "min_methods": r.randint(1, 4)},
    "unwrap-abuse": lambda r: {"enabled": True, "allow_expect": r.random() < 0.5},
    "lazy-ignores": lambda r: {"enabled": r.random() < 0.5},
    # a linter that is known under two section names (improper-logging, print-statements): the user's section must stay the one in effect
    "improper-logging": lambda r: {"enabled": True, "allow_in_scripts": False},
    "print-statements": lambda r: {"enabled": True, "allow_in_scripts": False},
}
DECODE = {"file-placement": ("file-placement", "global_deny"), "nesting": ("nesting", "max_nesting_depth"), "srp": ("srp", "max_methods"), "dry": ("dry", "min_duplicate_lines"), "magic-numbers": ("magic-numbers", "max_small_integer"),
          "stateless-class": ("stateless-class", "min_methods"), "method-property": ("method-property", "max_body_statements"),
          "improper-logging": ("improper-logging", "allow_in_scripts")}


def gen_existing(rng, i):
    secs = rng.sample(sorted(SECTION_VALUES), rng.randint(0, 6))
    doc = {}
    for s in secs:
        key = s.replace("-", "_") if rng.random() < 0.4 else s
        doc[key] = SECTION_VALUES[s](rng)
    if rng.random() < 0.25 and "file-placement" not in doc and "file_placement" not in doc:
        # legacy layout accepted by file-placement: rules at the top level, no 'file-placement:' wrapper
        doc["global_deny"] = [{"pattern": ".*\\.tmp$", "reason": "no temp files (legacy layout)"}]
    if rng.random() < 0.4:
        doc["ignore"] = ["vendor/", "*.gen.py"]
    if rng.random() < 0.3:
        doc["my_custom_key"] = {"anything": [1, 2, 3], "note": "kept"}
        if i % 2:
            # text with the line-break characters YAML knows besides LF (NEL, LS, PS) and a non-ASCII letter: a value like any other
            doc["my_custom_key"]["note"] = "kept\x85next\u2028line\u2029end \u00e9"
    style = rng.choice(["block", "block", "flow", "comments", "crlf", "no-final-newline", "doc-markers", "banner-lookalike"])
    if i % 7 == 3:
        # the other documented configuration format: an existing .thailint.json, named with --output
        style = "json"
    text = yaml.safe_dump(doc, sort_keys=False, default_flow_style=(style == "flow")) if doc else "{}\n"
    if style == "json":
        # JSON as JSON tools write it: tab indentation, a float in exponent form without a dot (1e+16) - both outside YAML's reading of the same text
        doc.setdefault("my_custom_key", {"note": "kept"})["big"] = 1e16
        text = json.dumps(doc, indent=("\t" if i % 4 < 2 else 2)) + "\n"
    if style == "comments":
        text = "# my project configuration\n# GLOBAL SETTINGS are below (not really)\n" + text.replace("\n", "  # user note\n", 1) + "# trailing comment\n"
    elif style == "banner-lookalike":
        text = "# ============================================================================\n# MY SETTINGS\n# ============================================================================\n" + text
    elif style == "crlf":
        text = text.replace("\n", "\r\n")
    elif style == "no-final-newline":
        text = text.rstrip("\n")
    elif style == "doc-markers":
        text = "---\n" + text + "...\n"
    return {"id": "mg%d" % i, "text": text, "doc": doc, "style": style, "fname": (".thailint.json" if i % 2 else "Lint.JSON") if style == "json" else ".thailint.yaml", "presets": [rng.choice(PRESETS + [None]), rng.choice(PRESETS + [None]), rng.choice(PRESETS)]}


def flat(d, prefix=()):
    out = {}
    if isinstance(d, dict):
        for k, v in d.items():
            out.update(flat(v, prefix + (str(k),)))
        if not d and prefix:
            out[prefix] = {}
    else:
        out[prefix] = d
    return out


def merge_history(case):
    d = runner.new_dir("m")
    os.makedirs(os.path.join(d, ".git"))
    fname = case.get("fname", ".thailint.yaml")
    outopt = ["--output", fname] if fname != ".thailint.yaml" else []
    # a name that is not auto-discovered (the suffix in capitals is read as JSON all the same) is handed to the commands with --config
    cfgopt = [] if fname.startswith(".thailint.") else ["--config", fname]
    path = os.path.join(d, fname)
    with open(path, "w", encoding="utf-8", newline="") as f:
        f.write(case["text"])
    steps = []
    for si, p in enumerate(case["presets"]):
        before = read(path)
        if (si + case.get("i", 0)) % 3 == 2:
            # the interactive form: the preset question is answered on stdin (Enter = the offered default, or the name typed in)
            argv = ["init-config"] + (["--preset", p] if p else []) + outopt
            r = runner.cli_real(argv, d, stdin_data=(b"\n" if si % 2 == 0 else ((p or "standard") + "\n").encode()))
        else:
            argv = ["init-config", "--non-interactive"] + (["--preset", p] if p else []) + outopt
            r = runner.cli(argv, d)
        after = read(path)
        try:
            # (a file named *.json is read by the tool's JSON parser: judge it by that parser)
            loaded = json.loads(after.decode("utf-8")) if fname.lower().endswith(".json") else yaml.safe_load(after.decode("utf-8"))
            err = None
        except Exception as e:  # noqa: BLE001
            loaded, err = None, "%s: %s" % (type(e).__name__, str(e)[:150])
        steps.append({"argv": argv, "exit": r.exit, "changed": before != after, "loaded": loaded if isinstance(loaded, dict) else None, "err": err, "out": r.out[-200:], "stderr": r.err[-200:],
                      "after_text": after.decode("utf-8", "replace") if after is not None and len(after) < 40000 else None})
    # in effect: decode the user's thresholds on the staircase probe with the merged file
    probe = dict(staircase.files(), **{"st/scratch.tmp": "temporary\n", "st/keep.txt": "kept\n"})
    runner.write_tree(d, probe)
    decoded = {}
    for sec, (cmdsec, key) in DECODE.items():
        cmd = {"stateless-class": "stateless-class", "method-property": "method-property"}.get(sec, sec)
        r = runner.cli(cfgopt + [cmd, "--format", "json", "st"], d)
        vs = r.violations()
        decoded[sec] = {"exit": r.exit, "v": None if vs is None else sorted([v["rule_id"], v["file_path"], v["line"]] for v in vs), "err": r.err[-200:] if vs is None else ""}
    # reference: the user's own file alone
    d2 = runner.new_dir("m")
    os.makedirs(os.path.join(d2, ".git"))
    with open(os.path.join(d2, fname), "w", encoding="utf-8", newline="") as f:
        f.write(case["text"])
    runner.write_tree(d2, probe)
    ref = {}
    for sec in DECODE:
        r = runner.cli(cfgopt + [sec, "--format", "json", "st"], d2)
        vs = r.violations()
        ref[sec] = {"exit": r.exit, "v": None if vs is None else sorted([v["rule_id"], v["file_path"], v["line"]] for v in vs)}
    return {"steps": steps, "decoded": decoded, "ref": ref}


def preset_case(item):
    preset, fname = item
    d = runner.new_dir("p")
    files = dict(staircase.files(), **{k: v for k, v in triggers.files("p").items() if k != ".thailint.yaml"})
    runner.write_tree(d, files)
    r = runner.cli(["init-config", "--non-interactive", "--force"] + (["--preset", preset] if preset else []) + (["--output", fname] if fname != ".thailint.yaml" else []), d)
    text = read(os.path.join(d, fname))
    out = {"exit": r.exit, "exists": text is not None, "err": r.err[-200:]}
    try:
        doc = yaml.safe_load(text.decode("utf-8")) if text is not None else None
        out["parses"] = isinstance(doc, dict)
        out["top_keys"] = sorted(doc) if isinstance(doc, dict) else None
    except Exception as e:  # noqa: BLE001
        out["parses"] = False
        out["parse_err"] = str(e)[:150]
    out["cmds"] = {}
    for c in triggers.CMDS:
        rr = runner.cli(([] if fname.startswith(".thailint.") else ["--config", fname]) + [c, "--format", "json", "."], d)
        out["cmds"][c] = {"exit": rr.exit, "err": rr.err[-200:] if rr.exit not in (0, 1) else ""}
    return out


def run(ctx):
    ctx.rule = ("(a) generated valid .thailint.yaml (subset of sections, hyphen/underscore, block/flow style, comments, banner look-alikes, CRLF, document markers) x three "
                "init-config runs with presets; (b) presets x every linter command; (c) histories of 8-25 config set/get/reset commands over cfg.yaml / cfg.json with valid, invalid "
                "and YAML-special values. distinct non-trivial = merge cases with >= 1 pre-existing section, (set key, value, verdict) tuples, get checks of written keys")
    ctx.assumptions = ["state model of the user's file = yaml.safe_load(before); a key path is 'kept' when it is present with an equal value after the run",
                       "documented value conversion of config set: true/false -> bool, int, float, else string (Python literal syntax)",
                       "validated keys: log_level, output_format, max_retries, timeout, app_name (src/config.py)"]
    rng = ctx.rng()
    # ---- (c)
    sg = [gen_setget(rng, i) for i in range(ctx.size(40, 400))]
    for case, o in zip(sg, runner.pmap(setget_history, sg, timeout=600)):
        if not o.get("ok"):
            ctx.inconclusive_if(True, "set/get history failed in harness: %s" % str(o)[:300])
            continue
        check_setget(ctx, case, o["value"])
    # ---- (a)
    mg = [gen_existing(rng, i) for i in range(ctx.size(28, 500))]
    template_sections = None
    for case, o in zip(mg, runner.pmap(merge_history, mg, timeout=600)):
        if not o.get("ok"):
            ctx.inconclusive_if(True, "merge history failed in harness: %s" % str(o)[:300])
            continue
        v = o["value"]
        before = flat(case["doc"])
        files = {".thailint.yaml.before": case["text"]}
        prev_loaded = None
        if case["doc"]:
            ctx.nontrivial(["merge", case["style"], sorted(case["doc"])])
        for k, st in enumerate(v["steps"]):
            ctx.evaluations += 1
            ctx.count("merge_runs")
            rep = {"history": case["id"], "step": k, "argv": st["argv"], "style": case["style"]}
            fs = dict(files, **{".thailint.yaml.after": st["after_text"] or ""})
            if st["exit"] != 0:
                ctx.discrepancy("init-config-fails:%s" % case["style"], "%s step %d: init-config exit %s: %s %s" % (case["id"], k, st["exit"], st["out"], st["stderr"]), rep, fs)
                continue
            if st["loaded"] is None:
                ctx.discrepancy("merged-file-invalid-yaml:%s" % case["style"], "%s step %d: merged file is not a valid YAML mapping: %s" % (case["id"], k, st["err"]), rep, fs)
                continue
            after = flat(st["loaded"])
            lost = [p for p in before if p not in after]
            changed = [p for p in before if p in after and after[p] != before[p]]
            if lost or changed:
                ctx.discrepancy("user-setting-lost:%s" % case["style"], "%s step %d: pre-existing settings lost %r / changed %r" % (case["id"], k, lost[:3], [(p, before[p], after[p]) for p in changed[:2]]), rep, fs)
            # a section present under one spelling must not be added again under the other spelling
            tops = list(st["loaded"])
            dup = [t for t in tops if "-" in t and t.replace("-", "_") in tops]
            if dup:
                ctx.discrepancy("section-added-twice", "%s step %d: section present as %r and %r (after key normalisation the later one overrides the user's values)" % (case["id"], k, dup[0], dup[0].replace("-", "_")), rep, fs)
            if k >= 1 and st["changed"]:
                ctx.discrepancy("not-idempotent:%s" % case["style"], "%s step %d: running init-config again changed the file" % (case["id"], k), rep, fs)
        # in effect
        for sec, (cmdsec, key) in DECODE.items():
            user_has = any(s.replace("_", "-") == sec for s in case["doc"]) or (sec == "file-placement" and "global_deny" in case["doc"]) or \
                (sec == "improper-logging" and any(s.replace("_", "-") == "print-statements" for s in case["doc"]))
            if not user_has:
                continue
            ctx.count("in_effect_checks")
            a, b = v["decoded"][sec], v["ref"][sec]
            if a["v"] != b["v"] or a["exit"] != b["exit"]:
                ctx.discrepancy("user-threshold-not-in-effect:%s" % sec, "%s: after the merge `%s` behaves differently than with the user's file alone (%s vs %s findings): the user's %s setting is no longer in effect" % (
                    case["id"], sec, None if a["v"] is None else len(a["v"]), None if b["v"] is None else len(b["v"]), sec),
                    {"history": case["id"], "argv": [sec, "--format", "json", "st"]}, dict(files, **{".thailint.yaml.after": v["steps"][-1]["after_text"] or ""}))
    # ---- (b)
    # (the generated file under its default name, and under the other auto-discovered name given with --output)
    pitems = [(p, f) for f in (".thailint.yaml", ".thailint.json", "Lint.JSON", "lint.YML") for p in PRESETS + [None]]
    for (preset, fname), o in zip(pitems, runner.pmap(preset_case, pitems, timeout=600)):
        ctx.evaluations += 1
        if not o.get("ok"):
            ctx.inconclusive_if(True, "preset case failed in harness: %s" % str(o)[:300])
            continue
        v = o["value"]
        ctx.nontrivial(["preset", preset, fname])
        tag = "" if fname == ".thailint.yaml" else ":" + fname
        rep = {"argv": ["init-config", "--non-interactive", "--force"] + (["--preset", preset] if preset else []) + (["--output", fname] if tag else [])}
        if v["exit"] != 0 or not v["exists"] or not v["parses"]:
            ctx.discrepancy("preset-file-invalid:%s%s" % (preset, tag), "preset %s: exit %s exists=%s parses=%s %s" % (preset, v["exit"], v["exists"], v["parses"], v.get("parse_err", v["err"])), rep, {})
            continue
        for c, r in v["cmds"].items():
            ctx.count("preset_command_runs")
            if r["exit"] not in (0, 1):
                ctx.discrepancy("preset-rejected-by:%s%s" % (c, tag), "preset %s: `%s` exits %s with the generated file %s: %s" % (preset, c, r["exit"], fname, r["err"]), rep, {})
    ctx.sample({"setget_history": sg[0]["ops"][:8], "config_file": sg[0]["cfgname"], "merge_example": {"style": mg[0]["style"], "existing": mg[0]["text"][:300], "presets": mg[0]["presets"]}})
    ctx.inconclusive_if(ctx.counters["merge_runs"] < 30 or ctx.counters["get_ops"] < 30, "too few merge runs / get operations")
