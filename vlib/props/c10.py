"""C10 - directory, file-list, CLI and library runs agree with one another.

Monitor: boundary trace of (a) `thailint X dir`, (b) `thailint X f` for every file, (c) `thailint X f1 f2 ..`
for random subsets / mixed file+directory lists, (d) Linter(...).lint(target, rules=[documented name]) in a
forked child. Oracles: union laws for per-file rules, CLI == library for every rule incl. cross-file ones.
"""
from __future__ import annotations

import os
from collections import Counter

from .. import runner
from ..gen import ctrl, triggers

CROSS_FILE_CMDS = {"dry", "stringly-typed"}
# name used with Linter.lint(rules=[...]) in the linter's own documentation
LIB_RULE = {
    "nesting": "nesting", "srp": "srp", "dry": "dry", "magic-numbers": "magic-numbers", "stringly-typed": "stringly-typed",
    "file-placement": "file-placement", "improper-logging": "improper-logging", "print-statements": "print-statements",
    "method-property": "method-property", "stateless-class": "stateless-class", "lazy-ignores": "lazy-ignores", "lbyl": "lbyl",
    "file-header": "file-header", "pipeline": "collection-pipeline", "perf": "performance",
    "string-concat-loop": "performance.string-concat-loop", "regex-in-loop": "performance.regex-in-loop",
    "unwrap-abuse": "unwrap-abuse", "clone-abuse": "clone-abuse", "blocking-async": "blocking-async",
}


def make_project(rng, i):
    files = triggers.random_files(rng, tag="a%d" % i)
    extra = triggers.random_files(rng, tag="b%d" % i)
    for k, v in extra.items():
        if k != ".thailint.yaml":
            files[k.replace("src/", "src/inner/deep/" if rng.random() < 0.5 else "lib/")] = v
    for need in ("lib/", "src/inner/", "tools/"):
        if not any(f.startswith(need) for f in files):
            files[need + "extra%d.py" % i] = "def extra%d(a):\n    print(a)\n    return a * %d\n" % (i, rng.randint(1001, 9999))
    for j in range(rng.randint(1, 3)):
        lang = rng.choice(["py", "ts", "rs"])
        funcs = [{"name": "g%d_%d_%d" % (i, j, k), "style": "func", "block": ctrl.gen_chain(rng, ctrl.kinds_for(lang), rng.randint(2, 7))}
                 for k in range(rng.randint(1, 4))]
        text, _ = ctrl.render(lang, funcs, prefix="q%d%d" % (i, j))
        files["%s/gen%d_%d%s" % (rng.choice(["src", "lib", "src/inner", "tools"]), i, j, ctrl.EXT[lang])] = text
    # leak bait: module A aliases a library under the name module B uses for something unrelated (and vice versa)
    files["src/bait_a%d.py" % i] = (
        "import re as rx\nimport logging as lg\n\n\ndef scan_a(lines, pat):\n    out = []\n    for line in lines:\n        if pat.match(line):\n            out.append(line)\n"
        "    lg.info(out)\n    return out\n\n\ndef by_alias(lines):\n    return [line for line in lines if rx.match(\"x\", line)]\n")
    files["src/bait_b%d.py" % i] = (
        "import re as pat\n\n\ndef scan_b(lines, rx, lg):\n    out = []\n    for line in lines:\n        if rx.match(line):\n            out.append(line)\n        lg.write(line)\n"
        "    return out\n\n\ndef by_alias_b(lines):\n    return [line for line in lines if pat.match(\"y\", line)]\n")
    # files no parser accepts: whatever a linter says about them (a syntax-error notice under its own rule id, nothing) it must say the same
    # through the command, the file list, the directory run and the library
    files["src/broken%d.py" % i] = "def broken_%d(a:\n    print(a)\n    return a * %d\n" % (i, rng.randint(1001, 9999))
    files["lib/broken%d.ts" % i] = "export function broken%d(a: number {\n  console.log(a);\n  return a * %d;\n" % (i, rng.randint(1001, 9999))
    files[".thailint.yaml"] = ("magic-numbers:\n  allowed_numbers: [0, 1]\n  max_small_integer: 3\n  typescript:\n    allowed_numbers: [0, 1, 2, 37, 4217, 7331]\n  rust:\n    max_small_integer: 20\n"
                               "nesting:\n  max_nesting_depth: 3\n  python:\n    max_nesting_depth: 5\n  rust:\n    max_nesting_depth: 2\n"
                               "srp:\n  max_methods: 2\n  typescript:\n    max_methods: 9\n    max_loc: 500\n") + "dry:\n  enabled: true\n  min_duplicate_lines: 3\nfile-placement:\n  global_deny:\n    - pattern: \".*third.*\\\\.py$\"\n      reason: \"no third\"\n"
    # ignore patterns of every form, including ones that spell a directory's own path: whatever they mean, they must mean the same
    # for a directory run and for the same files named one by one
    files["tools/gen_out/made%d.py" % i] = "def made%d(a):\n    print(a)\n    return a * %d\n" % (i, rng.randint(1001, 9999))
    files["vendor/shim%d.py" % i] = "def shim%d(a):\n    print(a)\n    return a * %d\n" % (i, rng.randint(1001, 9999))
    pats = rng.sample(["vendor", "tools/gen_out", "vendor/", "tools/gen_out/*", "*.rs", "lib", "src/inner/deep", "**/deep/**", "shim%d.py" % i], rng.randint(1, 4))
    if rng.random() < 0.5:
        files[".thailintignore"] = "\n".join(pats) + "\n"
    else:
        files[".thailint.yaml"] += "ignore:\n" + "".join("  - \"%s\"\n" % p_ for p_ in pats)
    return files


def norm(vs, root, cwd):
    out = []
    for v in vs:
        fp = v["file_path"]
        if not os.path.isabs(fp):
            fp = os.path.normpath(os.path.join(cwd, fp))
        out.append([v["rule_id"], os.path.relpath(fp, root), v["line"], v["column"], v["message"]])
    return sorted(out)


EXPLICIT_CONFIGS = {
    # an explicit configuration file replaces whatever the project root carries - for the CLI (--config F) and for Linter(config_file=F) alike
    "cfg_alt.yaml": "nesting:\n  max_nesting_depth: 1\nmagic-numbers:\n  allowed_numbers: [0]\nsrp:\n  max_methods: 1\ndry:\n  enabled: true\n  min_duplicate_lines: 4\n",
    "cfg_comment_only.yaml": "# nothing configured here\n",
    "cfg_empty.json": "{}",
}


def lib_lint(arg):
    root, target, rule = arg[:3]
    cfg_file = arg[3] if len(arg) > 3 else None
    os.chdir(root)
    os.environ["THAILINT_VERIF_FAILLOG"] = os.path.join(root, ".git", "faillog")
    from src import Linter

    vs = (Linter(config_file=os.path.join(root, cfg_file), project_root=root) if cfg_file else Linter(project_root=root)).lint(target, rules=[rule])
    return norm([{"rule_id": v.rule_id, "file_path": str(v.file_path), "line": v.line, "column": v.column, "message": v.message} for v in vs], root, root)


def exec_case(case):
    root = runner.new_dir("t")
    runner.write_tree(root, dict(case["files"], **EXPLICIT_CONFIGS))
    cmd = case["cmd"]
    srcs = sorted(f for f in case["files"] if not f.startswith("."))
    out = {"per_file": {}, "runs": 0}

    def cli(targets):
        r = runner.cli([cmd, "--format", "json"] + targets, root)
        out["runs"] += 1
        vs = r.violations()
        if vs is None or r.exit not in (0, 1):
            return {"error": "exit %s: %s" % (r.exit, r.err[-300:])}
        return {"v": norm(vs, root, root)}

    out["dir"] = {t: cli([t]) for t in case["dirs"]}
    # the same directory under the traversal / scheduling switches: still a union, over the files the switch leaves in scope
    out["dir_opts"] = []
    for d, opts in case.get("dir_opts", []):
        r = runner.cli([cmd, "--format", "json"] + opts + [d], root)
        out["runs"] += 1
        vs = r.violations()
        out["dir_opts"].append({"dir": d, "opts": opts, "res": {"error": "exit %s: %s" % (r.exit, r.err[-300:])} if vs is None or r.exit not in (0, 1) else {"v": norm(vs, root, root)}})
    for f in srcs:
        out["per_file"][f] = cli([f])
    out["lists"] = [{"targets": t, "res": cli(t)} for t in case["lists"]]
    out["lib"] = {}
    for t in case["lib_targets"]:
        r = runner.call(lib_lint, (root, t, LIB_RULE[cmd]), timeout=120)
        out["lib"][t] = {"v": r["value"]} if r.get("ok") else {"error": str(r)[:400]}
        out["lib_cli"] = out.get("lib_cli", {})
        out["lib_cli"][t] = out["dir"].get(t) or out["per_file"].get(t) or cli([t])
    # the same target under an explicit configuration file, CLI vs library
    name = sorted(EXPLICIT_CONFIGS)[case.get("cfg_pick", 0) % len(EXPLICIT_CONFIGS)]
    r = runner.cli([cmd, "--config", name, "--format", "json", "src"], root)
    out["runs"] += 1
    vs = r.violations()
    c_res = {"error": "exit %s: %s" % (r.exit, r.err[-300:])} if vs is None or r.exit not in (0, 1) else {"v": norm(vs, root, root)}
    lr = runner.call(lib_lint, (root, "src", LIB_RULE[cmd], name), timeout=120)
    out["explicit_cfg"] = {"name": name, "cli": c_res, "lib": {"v": lr["value"]} if lr.get("ok") else {"error": str(lr)[:400]}}
    return out


def under(f, d):
    return d == "." or f == d or f.startswith(d.rstrip("/") + "/")


def direct_child(f, d):
    return os.path.dirname(f) == ("" if d == "." else d.rstrip("/"))


OPT_SETS = [["--parallel"], ["--no-recursive"], ["--no-recursive", "--parallel"], ["--parallel", "--no-recursive"], ["--recursive", "--parallel"]]


def run(ctx):
    ctx.rule = ("case = (project tree, command): directory run vs per-file runs vs file-list runs vs Linter.lint; distinct non-trivial = "
                "(command, comparison kind, target) whose reference side has >= 1 violation")
    ctx.assumptions = ["union laws are asserted for per-file rules only (dry / stringly-typed are cross-file); CLI == library for all",
                       "library rule filter uses the name each linter's documentation passes to Linter.lint(rules=[...])",
                       "reported paths are normalised against the working directory"]
    rng = ctx.rng()
    cases = []
    nproj = ctx.size(2, 12)
    for i in range(nproj):
        files = make_project(rng, i)
        srcs = sorted(f for f in files if not f.startswith("."))
        for cmd in triggers.CMDS:
            lists = []
            for _ in range(2 if ctx.quick else 4):
                lists.append(rng.sample(srcs, rng.randint(2, min(6, len(srcs)))))
            lists.append([rng.choice(srcs), "lib"])  # mixed file + directory (disjoint)
            lists.append(["src/bait_a%d.py" % i, "src/bait_b%d.py" % i])
            lists.append(["src/bait_b%d.py" % i, "src/bait_a%d.py" % i])
            lists.append(["tools", "lib"] if any(f.startswith("tools/") for f in srcs) else ["lib", "src/inner"])
            lib_targets = [".", "src", rng.choice(srcs), rng.choice([f for f in srcs if "other" in f]), "src/broken%d.py" % i]
            dirs = [".", "src", "lib"]
            dir_opts = [[d, o] for d in dirs + ["tools"] for o in OPT_SETS]
            if ctx.quick:
                dir_opts = [[["src", "tools", "lib", "."][(len(cases) + k) % 4], o] for k, o in enumerate(OPT_SETS[:4])]
            cases.append({"files": files, "cmd": cmd, "dirs": dirs, "lists": lists, "lib_targets": lib_targets, "id": "p%d:%s" % (i, cmd), "cfg_pick": len(cases),
                          "dir_opts": dir_opts})
    outs = runner.pmap(exec_case, cases, timeout=900)
    for case, o in zip(cases, outs):
        if not o.get("ok"):
            ctx.inconclusive_if(True, "case %s failed in harness: %s" % (case["id"], str(o)[:300]))
            continue
        v = o["value"]
        cmd = case["cmd"]
        ctx.evaluations += v["runs"] + len(v["lib"])
        files = case["files"]
        errs = [x for x in list(v["dir"].values()) + list(v["per_file"].values()) + [l["res"] for l in v["lists"]] + [x["res"] for x in v["dir_opts"]] if "error" in x]
        if errs:
            ctx.inconclusive_if(True, "%s: CLI run failed: %s" % (case["id"], errs[0]["error"]))
            continue
        per = {f: Counter(map(tuple, r["v"])) for f, r in v["per_file"].items()}
        if cmd not in CROSS_FILE_CMDS:
            for d, r in v["dir"].items():
                got = Counter(map(tuple, r["v"]))
                exp = sum((per[f] for f in per if under(f, d)), Counter())
                # non-source files directly named are compared too (config file is under ".")
                ctx.count("union_dir_checked")
                if exp:
                    ctx.nontrivial([cmd, "dir", d])
                got_src = Counter(t for t in got.elements() if t[1] in per)
                if got_src != exp:
                    ctx.discrepancy("dir-vs-union:%s" % cmd, "%s dir %s: only in directory run %r; only in per-file runs %r" % (
                        case["id"], d, list((got_src - exp).elements())[:2], list((exp - got_src).elements())[:2]),
                        {"id": case["id"], "runs": [{"argv": [cmd, "--format", "json", d]}]}, files)
            for x in v["dir_opts"]:
                d, opts = x["dir"], x["opts"]
                got = Counter(map(tuple, x["res"]["v"]))
                member = direct_child if "--no-recursive" in opts else under
                exp = sum((per[f] for f in per if member(f, d)), Counter())
                ctx.count("union_dir_switch_checked")
                if exp:
                    ctx.nontrivial([cmd, "dir" + "".join(sorted(opts)), d])
                got_src = Counter(t for t in got.elements() if t[1] in per)
                if got_src != exp:
                    ctx.discrepancy("dir-vs-union:%s:%s" % ("+".join(sorted(o.lstrip("-") for o in opts)), cmd), "%s dir %s %s: only in directory run %r; only in per-file runs of the files in scope %r" % (
                        case["id"], " ".join(opts), d, list((got_src - exp).elements())[:2], list((exp - got_src).elements())[:2]),
                        {"id": case["id"], "runs": [{"argv": [cmd, "--format", "json"] + opts + [d]}]}, files)
            for l in v["lists"]:
                got = Counter(map(tuple, l["res"]["v"]))
                exp = Counter()
                for t in l["targets"]:
                    if t in per:
                        exp += per[t]
                    else:
                        exp += sum((per[f] for f in per if under(f, t)), Counter())
                ctx.count("union_list_checked")
                if exp:
                    ctx.nontrivial([cmd, "list", len(l["targets"])])
                got_src = Counter(t for t in got.elements() if t[1] in per)
                if got_src != exp:
                    ctx.discrepancy("list-vs-union:%s" % cmd, "%s list %s: only in list run %r; only in per-file runs %r" % (
                        case["id"], l["targets"], list((got_src - exp).elements())[:2], list((exp - got_src).elements())[:2]),
                        {"id": case["id"], "runs": [{"argv": [cmd, "--format", "json"] + l["targets"]}]}, files)
        for t, lr in v["lib"].items():
            cr = v["lib_cli"][t]
            ctx.count("cli_vs_lib_checked")
            if "error" in lr or "error" in cr:
                ctx.discrepancy("lib-error:%s" % cmd, "%s target %s: %s" % (case["id"], t, lr.get("error") or cr.get("error")), {"id": case["id"]}, files)
                continue
            a, b = Counter(map(tuple, cr["v"])), Counter(map(tuple, lr["v"]))
            if a:
                ctx.nontrivial([cmd, "cli-vs-lib", "file" if t in per else "dir"])
            if a != b:
                only_cli, only_lib = list((a - b).elements()), list((b - a).elements())
                key = "cli-vs-lib:%s" % cmd
                if t in per and not only_lib and all(r[0].startswith("dry.") for r in only_cli):
                    key = "lib-single-file-no-finalize:dry"
                ctx.discrepancy(key, "%s target %s rules=[%r]: only CLI %r; only library %r" % (case["id"], t, LIB_RULE[cmd], only_cli[:2], only_lib[:2]),
                                {"id": case["id"], "runs": [{"argv": [cmd, "--format", "json", t]}], "expected": only_cli[:5], "observed": only_lib[:5]}, files)
        ec = v.get("explicit_cfg")
        if ec:
            ctx.count("explicit_config_cli_vs_lib_checked")
            if "error" in ec["cli"] or "error" in ec["lib"]:
                ctx.discrepancy("lib-error:%s" % cmd, "%s --config %s: %s" % (case["id"], ec["name"], ec["cli"].get("error") or ec["lib"].get("error")), {"id": case["id"]}, files)
            else:
                a, b = Counter(map(tuple, ec["cli"]["v"])), Counter(map(tuple, ec["lib"]["v"]))
                if a or b:
                    ctx.nontrivial([cmd, "cli-vs-lib-explicit-config", ec["name"]])
                if a != b and cmd == "dry" and "dry:" not in EXPLICIT_CONFIGS[ec["name"]]:
                    ctx.count("not_judged_dry_opt_in")  # `thailint dry` switches the opt-in rule on by itself; Linter.lint(rules=["dry"]) keeps `enabled` as configured: documentation silent
                elif a != b:
                    ctx.discrepancy("cli-vs-lib:explicit-config:%s" % cmd, "%s --config %s vs Linter(config_file=...): only CLI %r; only library %r" % (
                        case["id"], ec["name"], list((a - b).elements())[:2], list((b - a).elements())[:2]),
                        {"id": case["id"], "runs": [{"argv": [cmd, "--config", ec["name"], "--format", "json", "src"]}]}, dict(files, **EXPLICIT_CONFIGS))
    ctx.sample({"case": cases[0]["id"], "dirs": cases[0]["dirs"], "lists": cases[0]["lists"], "lib_targets": cases[0]["lib_targets"],
                "files": sorted(cases[0]["files"])})
    ctx.inconclusive_if(ctx.counters["cli_vs_lib_checked"] < 40 or ctx.counters["union_dir_checked"] < 40, "too few comparisons")
