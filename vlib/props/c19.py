"""C19 - every linter honours its documented examples, wherever they are embedded.

Corpus: every fenced python/typescript/javascript/rust block of docs/*-linter.md (re-extracted at run time), classified
by its preceding label (Before / Code with violation(s) / Detects ... => violating; After / Refactored code / EAFP
alternative / Fixed code ... => acceptable). Hand-reviewed exceptions: corpus/overrides.json.
Monitor: boundary trace of the documented command (Linter.lint for cqs) on the example as is and under embeddings
(before/after unrelated code, inside a function / an if block, repeated with renamed definitions).
Oracle: violating => reported with the documented rule family; acceptable => not reported; embeddings of pattern-linter
examples keep the count (k x for repetition) and the relative lines.
"""
from __future__ import annotations

import ast
import os
import re

import yaml

from .. import runner
from ..gen import docs

EXT = {"py": ".py", "ts": ".ts", "js": ".js", "rs": ".rs"}


def parses(lang, text):
    if lang == "py":
        try:
            ast.parse(text)
            return True
        except (SyntaxError, ValueError):
            return False
    from ..gen import ctrl
    return ctrl.syntax_ok(lang, text)


def filler(lang, n, tag):
    if lang == "py":
        return "".join("def filler_%s_%d(value_%d):\n    return value_%d\n\n\n" % (tag, i, i, i) for i in range(n))
    if lang == "rs":
        return "".join("fn filler_%s_%d(value_%d: i64) -> i64 {\n    value_%d\n}\n\n" % (tag, i, i, i) for i in range(n))
    return "".join("function filler_%s_%d(value_%d) {\n  return value_%d;\n}\n\n" % (tag, i, i, i) for i in range(n))


PY_KEEP = {"self", "cls", "_", "__name__", "args", "kwargs"}


def rename_py(text, style):
    """Consistently rename the variables an example binds itself (assignment / loop / with / comprehension targets and parameters): every Name / arg node
    of that name, by position. Function, class, attribute, keyword-argument and imported names are untouched."""
    try:
        tree = ast.parse(text)
    except (SyntaxError, ValueError):
        return None
    if any(isinstance(n, (ast.Global, ast.Nonlocal)) for n in ast.walk(tree)):
        return None
    imported = {(a.asname or a.name).split(".")[0] for n in ast.walk(tree) if isinstance(n, (ast.Import, ast.ImportFrom)) for a in n.names}
    defs = {n.name for n in ast.walk(tree) if isinstance(n, (ast.FunctionDef, ast.AsyncFunctionDef, ast.ClassDef))}
    kwnames = {k.arg for n in ast.walk(tree) if isinstance(n, ast.Call) for k in n.keywords if k.arg}
    bound = {n.id for n in ast.walk(tree) if isinstance(n, ast.Name) and isinstance(n.ctx, ast.Store)}
    bound |= {a.arg for n in ast.walk(tree) if isinstance(n, ast.arguments) for a in n.args + n.kwonlyargs + n.posonlyargs}
    bound -= PY_KEEP | imported | defs | kwnames
    bound = {b for b in bound if not (b.isupper() or b.startswith("__"))}  # constants keep their (rule-relevant) spelling
    bound = {b for b in bound if not re.search(r"verbose|debug", b, re.I)}  # the conditional-verbose rule is documented to key on these flag names
    if not bound:
        return None
    new = {b: (b + "_rn" if style == "suffix" else "w%d_rn" % i) for i, b in enumerate(sorted(bound))}
    spots = []
    for n in ast.walk(tree):
        if isinstance(n, ast.Name) and n.id in new:
            spots.append((n.lineno, n.col_offset, n.id))
        elif isinstance(n, ast.arg) and n.arg in new:
            spots.append((n.lineno, n.col_offset, n.arg))
    lines = text.split("\n")
    for ln, col, name in sorted(set(spots), reverse=True):
        raw = lines[ln - 1].encode("utf-8")
        if raw[col:col + len(name.encode())] != name.encode():
            return None
        lines[ln - 1] = (raw[:col] + new[name].encode() + raw[col + len(name.encode()):]).decode("utf-8")
    out = "\n".join(lines)
    try:
        ast.parse(out)
    except (SyntaxError, ValueError):
        return None
    return out


def rename_ts(text, lang, style):
    """The same for TypeScript / JavaScript with a bare tree-sitter parse: names declared by const/let/var declarators, parameters and for-in/of loops;
    every `identifier` node of that name is replaced (property names are other node types and stay)."""
    import tree_sitter
    import tree_sitter_typescript as m

    parser = tree_sitter.Parser(tree_sitter.Language(m.language_typescript()))
    src = text.encode("utf-8")
    root = parser.parse(src).root_node
    bound, shorthand, idents = set(), set(), []

    def walk(n):
        if n.type == "identifier":
            idents.append(n)
            par = n.parent
            if par is not None and ((par.type == "variable_declarator" and par.child_by_field_name("name") == n)
                                    or par.type in ("required_parameter", "optional_parameter", "formal_parameters")
                                    or (par.type in ("for_in_statement",) and par.child_by_field_name("left") == n)):
                bound.add(src[n.start_byte:n.end_byte].decode())
        elif n.type in ("shorthand_property_identifier", "shorthand_property_identifier_pattern"):
            shorthand.add(src[n.start_byte:n.end_byte].decode())
        for c in n.children:
            walk(c)
    walk(root)
    bound -= shorthand
    bound = {b for b in bound if not b.isupper() and b not in ("console", "this", "undefined")}
    if not bound:
        return None
    new = {b: (b + "_rn" if style == "suffix" else "w%d_rn" % i) for i, b in enumerate(sorted(bound))}
    out = src
    for n in sorted(idents, key=lambda x: -x.start_byte):
        name = src[n.start_byte:n.end_byte].decode()
        if name in new:
            out = out[:n.start_byte] + new[name].encode() + out[n.end_byte:]
    return out.decode("utf-8")


PY_SCOPES2_NEW = ["in-method", "in-match-str", "in-match-int", "in-match-default", "in-function-with", "in-if-else", "in-try-except", "in-try-finally", "in-async-function"]
PY_SCOPES2 = ["in-function-class", "in-function-if", "in-function-try", "in-class-class"] + PY_SCOPES2_NEW


def embed(row, kind, rng):
    """-> (text, line mapping old->new as function, multiplier) or None when not applicable."""
    text, lang = row["text"], row["lang"]
    nlines = text.count("\n")
    if kind.startswith("rename-"):
        # identifier renaming, alone or combined with an enclosing scope: "rename-suffix", "rename-fresh+ts-in-arrow", ...
        style, _, inner = kind[len("rename-"):].partition("+")
        renamed = rename_py(text, style) if lang == "py" else rename_ts(text, lang, style) if lang in ("ts", "js") else None
        if renamed is None or renamed == text:
            return None
        return embed(dict(row, text=renamed), inner, rng) if inner else (renamed, [lambda l: l], 1)
    if kind.startswith("re-") and lang == "py":
        # the import variants the performance documentation lists for the regex rule: import re / from re import f, g / import re as regex
        if not re.search(r"^import re$", text, re.M):
            return None
        fns = sorted(set(re.findall(r"\bre\.(match|search|sub|findall|split|fullmatch)\(", text)))
        if not fns or re.search(r"\bre\.(?!(?:match|search|sub|findall|split|fullmatch)\()", text):
            return None
        if kind == "re-as":
            out = re.sub(r"^import re$", "import re as regex", text, flags=re.M)
            out = re.sub(r"\bre\.(%s)\(" % "|".join(fns), r"regex.\1(", out)
        else:
            names = {"re-from": fns, "re-from-flag-first": ["IGNORECASE"] + fns, "re-from-compile-first": ["compile"] + fns, "re-from-extra-last": fns + ["escape"]}.get(kind)
            if names is None:
                return None
            out = re.sub(r"^import re$", "from re import " + ", ".join(names), text, flags=re.M)
            out = re.sub(r"\bre\.(%s)\(" % "|".join(fns), r"\1(", out)
        return out, [lambda l: l], 1
    if kind.startswith("body-in-") and lang == "py":
        # the statements of a documented function example (its body), moved into a loop / an if inside another function
        try:
            tree = ast.parse(text)
        except (SyntaxError, ValueError):
            return None
        defs = [n for n in tree.body if isinstance(n, (ast.FunctionDef, ast.AsyncFunctionDef))]
        others = [n for n in tree.body if not isinstance(n, (ast.FunctionDef, ast.AsyncFunctionDef, ast.Import, ast.ImportFrom))]
        if len(defs) != 1 or others or isinstance(defs[0], ast.AsyncFunctionDef) or '"""' in text or "'''" in text:
            return None
        body = [n for n in defs[0].body if not (isinstance(n, ast.Expr) and isinstance(getattr(n, "value", None), ast.Constant))]
        if not body or any(isinstance(n, (ast.Yield, ast.YieldFrom, ast.Nonlocal, ast.Global)) for n in ast.walk(defs[0])):
            return None
        first, last = body[0].lineno, body[-1].end_lineno
        src = text.split("\n")
        block = src[first - 1:last]
        ind = len(block[0]) - len(block[0].lstrip())
        if any(ln.strip() and len(ln) - len(ln.lstrip()) < ind for ln in block):
            return None
        inner = {"body-in-for": "    for outer_embedded in OUTER_EMBEDDED:", "body-in-while": "    while FLAG_EMBEDDED:", "body-in-if": "    if FLAG_EMBEDDED:"}.get(kind)
        if inner is None:
            return None
        params = ast.unparse(defs[0].args)
        heads = ["def wrapper_embedded(%s):" % params, inner]
        out = "\n".join(heads) + "\n" + "".join((" " * 8 + ln[ind:] if ln.strip() else "") + "\n" for ln in block)
        return out, [lambda l, a=first, b=last: (l - a + 3) if a <= l <= b else -1], 1
    if kind.startswith("ts-in-") and lang in ("ts", "js"):
        if re.search(r"^\s*(import|export)\b", text, re.M):
            return None
        heads = {"ts-in-function": ["function wrapperEmbedded(flagEmbedded) {"], "ts-in-arrow": ["const wrapperEmbedded = (flagEmbedded) => {"],
                 "ts-in-fexpr": ["const wrapperEmbedded = function (flagEmbedded) {"], "ts-in-if": ["if (FLAG_EMBEDDED) {"],
                 "ts-in-method": ["class OuterEmbedded {", "  run(flagEmbedded) {"], "ts-in-objmethod": ["const holderEmbedded = {", "  run(flagEmbedded) {"],
                 "ts-in-for": ["for (const outerEmbedded of OUTER_EMBEDDED) {"], "ts-in-while": ["while (FLAG_EMBEDDED) {"]}.get(kind)
        if heads is None:
            return None
        tails = {"ts-in-function": ["}"], "ts-in-arrow": ["};"], "ts-in-fexpr": ["};"], "ts-in-if": ["}"], "ts-in-method": ["  }", "}"], "ts-in-objmethod": ["  },", "};"], "ts-in-for": ["}"], "ts-in-while": ["}"]}[kind]
        if "`" in text:
            return None  # re-indenting would change multi-line template contents
        ind = "  " * len(heads)
        body = "".join((ind + ln if ln.strip() else ln) + "\n" for ln in text.split("\n")[:-1])
        return "\n".join(heads) + "\n" + body + "\n".join(tails) + "\n", [lambda l, o=len(heads): l + o], 1
    if kind == "as-is":
        return text, [lambda l: l], 1
    if kind == "after-filler":
        n = rng.choice([1, 3, 10])
        head = filler(lang, n, "a")
        off = head.count("\n")
        # keep `from __future__` / module docstring legality: only python examples without them
        if lang == "py" and ("from __future__" in text):
            return None
        return head + text, [lambda l, o=off: l + o], 1
    if kind == "before-filler":
        return (text if text.endswith("\n") else text + "\n") + "\n\n" + filler(lang, rng.choice([1, 5]), "b"), [lambda l: l], 1
    if kind in ("in-function", "in-if", "in-for", "in-while") and lang == "py":
        if re.search(r"^(return|yield)\b", text, re.M) or "__name__" in text or "from __future__" in text or re.search(r"^\s*(import \*|from \S+ import \*)", text, re.M):
            return None
        if kind in ("in-for", "in-while") and re.search(r"^(break|continue)\b", text, re.M):
            return None
        head = {"in-function": "def wrapper_embedded(flag_embedded):\n", "in-if": "if FLAG_EMBEDDED:\n", "in-for": "for outer_embedded in OUTER_EMBEDDED:\n",
                "in-while": "while FLAG_EMBEDDED:\n"}[kind]
        body = "".join(("    " + ln if ln.strip() else ln) + "\n" for ln in text.split("\n")[:-1])
        if '"""' in text or "'''" in text:
            return None  # re-indenting would change multi-line string contents
        return head + body, [lambda l: l + 1], 1
    if kind in PY_SCOPES2 and lang == "py":
        if re.search(r"^(return|yield)\b", text, re.M) or "__name__" in text or "from __future__" in text or '"""' in text or "'''" in text or re.search(r"^\s*(import \*|from \S+ import \*)", text, re.M):
            return None
        heads = {"in-function-class": ["def wrapper_embedded(flag_embedded):", "    class InnerEmbedded:"],
                 "in-function-if": ["def wrapper_embedded(flag_embedded):", "    if flag_embedded:"],
                 "in-function-try": ["def wrapper_embedded(flag_embedded):", "    try:"],
                 "in-class-class": ["class OuterEmbedded:", "    class InnerEmbedded:"],
                 "in-method": ["class FactoryEmbedded:", "    def build_embedded(self, kind_embedded):"],
                 # the remaining compound statements: the arms of a match (string cases / other cases), with, else, except, finally, an async function
                 "in-match-str": ["match CHANNEL_EMBEDDED:", "    case \"email_embedded\":"], "in-match-int": ["match CHANNEL_EMBEDDED:", "    case 1:"],
                 "in-match-default": ["match CHANNEL_EMBEDDED:", "    case _:"],
                 "in-function-with": ["def wrapper_embedded(flag_embedded):", "    with flag_embedded:"], "in-if-else": ["if FLAG_EMBEDDED:\n    FLAG_EMBEDDED = None", "else:\n    if True:"],
                 "in-try-except": ["try:\n    FLAG_EMBEDDED = None", "except LookupError:\n    if True:"], "in-try-finally": ["try:\n    FLAG_EMBEDDED = None", "finally:\n    if True:"],
                 "in-async-function": ["async def wrapper_embedded(flag_embedded):", "    if flag_embedded:"]}[kind]
        body = "".join(("        " + ln if ln.strip() else ln) + "\n" for ln in text.split("\n")[:-1])
        tail = "    except LookupError:\n        flag_embedded = None\n" if kind == "in-function-try" else ""
        if kind == "in-match-str":
            tail = "    case \"sms_embedded\":\n        FLAG_EMBEDDED = None\n    case \"push_embedded\":\n        FLAG_EMBEDDED = None\n"
        off = sum(h.count("\n") + 1 for h in heads)
        if off != 2:
            return "\n".join(heads) + "\n" + body + tail, [lambda l, o=off: l + o], 1
        return "\n".join(heads) + "\n" + body + tail, [lambda l: l + 2], 1
    if kind.startswith("repeat") and lang == "py":
        k = int(kind[6:])
        names = set(re.findall(r"^(?:async\s+)?def\s+(\w+)|^class\s+(\w+)", text, re.M))
        names = {a or b for a, b in names}
        if not names or "__name__" in text:
            return None
        parts, maps, off = [], [], 0
        for c in range(k):
            t = text
            for nm in names:
                t = re.sub(r"\b%s\b" % re.escape(nm), "%s_copy%d" % (nm, c) if not nm.startswith("_") else "%s_copy%d" % (nm, c), t)
            t = t if t.endswith("\n") else t + "\n"
            parts.append(t + "\n\n")
            maps.append(lambda l, o=off: l + o)
            off += t.count("\n") + 2
        return "".join(parts), maps, k
    return None


def exec_case(case):
    d = runner.new_dir("d")
    os.makedirs(os.path.join(d, ".git"))
    cfg = case["config"]
    files = {"pkg/example%s" % EXT[case["lang"]]: case["text"]}
    if case["two_files"]:
        files["pkg/example_twin%s" % EXT[case["lang"]]] = case["text"]
    if cfg:
        files[".thailint.yaml"] = yaml.safe_dump(cfg)
    runner.write_tree(d, files)
    target = "pkg/example%s" % EXT[case["lang"]] if not case["two_files"] else "pkg"
    if case["cmd"].startswith("lib:"):
        def lib(arg):
            root, tgt, rule = arg
            os.chdir(root)
            from src import Linter
            vs = Linter(project_root=root).lint(tgt, rules=[rule])
            return [[v.rule_id, str(v.file_path), v.line, v.message[:120]] for v in vs]
        r = runner.call(lib, (d, target, case["cmd"][4:]), timeout=120)
        if not r.get("ok"):
            return {"error": str(r)[:300]}
        rows = r["value"]
        return {"rows": [x for x in rows if x[1].endswith("example%s" % EXT[case["lang"]])], "exit": 1 if rows else 0}
    r = runner.cli([case["cmd"], "--format", "json", target], d)
    vs = r.violations()
    if vs is None or r.exit not in (0, 1):
        return {"error": "exit %s %s" % (r.exit, r.err[-200:])}
    return {"rows": [[v["rule_id"], v["file_path"], v["line"], v["message"][:120]] for v in vs if v["file_path"].endswith("example%s" % EXT[case["lang"]])], "exit": r.exit,
            "swallowed": len(r["swallowed"])}


def run(ctx):
    ctx.rule = ("case = (documented example block, embedding); corpus = all fenced code blocks of docs/*-linter.md with a violating/acceptable label, minus hand-reviewed "
                "exceptions (corpus/overrides.json); distinct non-trivial = (doc, line, embedding) of judged examples")
    ctx.assumptions = ["labels 'Before', 'Code with violation(s)', 'Detects', 'Code with duplication' mean violating; 'After', 'Refactored', 'EAFP alternative', 'Fixed code', "
                       "'Code (no violation)' mean acceptable", "nesting examples are judged with max_nesting_depth 3 (the limit the doc's own annotations use)",
                       "cross-file linters (dry, stringly-typed) see the example in two files", "embeddings that do not parse are discarded; header-bound linters only in place",
                       "corpus/overrides.json lists blocks that are fragments, need undocumented context or are ambiguous (with reasons)"]
    rng = ctx.rng()
    rows = docs.extract(runner.REPO)
    overrides = docs.load_overrides(runner.VERIF)
    ctx.obs["blocks_total"] = len(rows)
    judged = []
    for r in rows:
        if r["class"] == "skipped":
            ctx.count("blocks_skipped_unlabelled")
            continue
        if r["doc"] == "method-property-linter.md" and re.match(r"(?s)\A(\s*def \w+\(self\b.*)", r["text"]) and "class " not in r["text"]:
            # a bare method shown out of its class: give it the class the prose talks about
            r = dict(r, text="class Example:\n" + "".join(("    " + ln if ln.strip() else ln) + "\n" for ln in r["text"].split("\n")[:-1]), wrapped=True)
        ov = overrides.get(docs.key_of(r)) or overrides.get("%s:%d" % (r["doc"], r["line"]))
        if ov and ov.get("skip"):
            ctx.count("blocks_skipped_reviewed")
            continue
        if ov and ov.get("class"):
            r = dict(r, **{"class": ov["class"]})
        if not parses(r["lang"], r["text"]):
            ctx.count("blocks_skipped_fragment")
            continue
        judged.append(r)
    ctx.obs["blocks_judged"] = len(judged)
    cases = []
    for r in judged:
        cmd, prefix, cfg = docs.DOCS[r["doc"]]
        extra = docs.derived_config(r)
        if extra:
            cfg = dict(cfg, **extra)
        kinds = ["as-is"]
        if cmd in docs.PATTERN_LINTERS:
            if cmd in docs.HEADER_BOUND:
                kinds += ["before-filler"]
            else:
                kinds += ["re-as", "re-from", "re-from-flag-first", "re-from-compile-first", "re-from-extra-last", "body-in-for", "body-in-while", "body-in-if", "after-filler", "before-filler", "in-function", "in-if", "in-for", "in-while", "repeat2", "repeat3", "in-function-class", "in-function-if", "in-function-try", "in-class-class"] + PY_SCOPES2_NEW
                ts_scopes = ["ts-in-function", "ts-in-arrow", "ts-in-fexpr", "ts-in-if", "ts-in-method", "ts-in-objmethod", "ts-in-for", "ts-in-while"]
                renames = ["rename-suffix", "rename-fresh"]
                if r["lang"] in ("ts", "js"):
                    kinds += ts_scopes + renames + ["%s+%s" % (a, b) for a in renames for b in ts_scopes]
                else:
                    kinds += renames + ["%s+%s" % (a, b) for a in renames for b in ("in-function", "in-function-if", "in-class-class")]
                if ctx.quick:
                    if r["lang"] in ("ts", "js"):
                        # (the documentation has few TS/JS examples: every scope, alone and with fresh names, also in the quick tier)
                        kinds = ["as-is"] + ts_scopes + ["rename-suffix"] + ["rename-fresh+" + sc for sc in ts_scopes] + ["rename-suffix+" + rng.choice(ts_scopes)]
                    else:
                        kinds = ["as-is", "repeat2", rng.choice(["in-function-class", "in-function-if", "in-function-try"]), "in-match-str", "in-method", rng.choice(PY_SCOPES2_NEW[2:]), "rename-" + rng.choice(["suffix", "fresh"]),
                                 "rename-%s+%s" % (rng.choice(["suffix", "fresh"]), rng.choice(["in-function", "in-function-if"]))] + \
                            rng.sample(["after-filler", "before-filler", "in-function", "in-if", "repeat3", "in-class-class"], 2) + [rng.choice(["in-for", "in-while"]), rng.choice(["body-in-for", "body-in-while", "body-in-if"])] + \
                            ["re-as", "re-from", "re-from-flag-first", "re-from-compile-first", "re-from-extra-last"]  # (apply to the few regex examples only)
        if r["lang"] in ("ts", "js"):
            kinds = kinds + ["as-twin-language"]  # the documentation heads these examples "TypeScript/JavaScript": the same text in the twin's file type
        for kind in kinds:
            e = embed(r, kind, rng) if kind != "as-twin-language" else (r["text"], [lambda l: l], 1)
            if e is None:
                continue
            text, maps, mult = e
            case_lang = r["lang"]
            if kind == "as-twin-language":
                case_lang = "js" if r["lang"] == "ts" else "ts"
                if not parses(case_lang, text):
                    ctx.count("twin_language_not_applicable")
                    continue
            if kind != "as-is" and not parses(r["lang"], text):
                ctx.count("embeddings_discarded_unparsable")
                continue
            cases.append({"row": {k: r[k] for k in ("doc", "line", "lang", "label", "class", "sha")}, "kind": kind, "text": text, "lang": case_lang, "cmd": cmd, "prefix": prefix,
                          "config": cfg, "two_files": (cmd == "stringly-typed") or (cmd == "dry" and r["class"] != "acceptable"), "mult": mult, "nmaps": len(maps), "orig": r["text"],
                          "maps": [[m(l) for l in range(r["text"].count("\n") + 3)] for m in maps]})
    outs = runner.pmap(exec_case, cases, timeout=600)
    base = {}
    for case, o in zip(cases, outs):
        if case["kind"] == "as-is" and o.get("ok") and "rows" in o["value"]:
            base[(case["row"]["doc"], case["row"]["line"])] = [x for x in o["value"]["rows"] if x[0].startswith(case["prefix"])]
    for case, o in zip(cases, outs):
        ctx.evaluations += 1
        row = case["row"]
        ident = "%s:%d" % (row["doc"], row["line"])
        files = {"example%s" % EXT[case["lang"]]: case["text"]}
        rep = {"doc": row["doc"], "line": row["line"], "label": row["label"], "embedding": case["kind"], "argv": [case["cmd"], "--format", "json", "pkg/example%s" % EXT[case["lang"]]], "config": case["config"]}
        if not o.get("ok") or "error" in o["value"]:
            ctx.discrepancy("example-run-fails:%s" % ident, "%s (%s, %s): %s" % (ident, row["label"], case["kind"], str(o)[:200]), rep, files)
            continue
        got = [x for x in o["value"]["rows"] if x[0].startswith(case["prefix"])]
        # only findings located inside the embedded example count (wrappers and filler are the harness' own code)
        n_orig = case["orig"].count("\n")
        inside = set()
        for mp in case["maps"]:
            inside |= {mp[l] for l in range(1, min(n_orig + 1, len(mp)))}
        if case["kind"] != "as-is":
            got = [x for x in got if x[2] in inside]
        ctx.count("examples_run:" + row["class"])
        ctx.nontrivial([row["doc"], row["line"], case["kind"]])
        if row["class"] == "acceptable":
            if got and case["kind"] != "as-is" and base.get((row["doc"], row["line"])):
                continue  # the example itself is already reported (its own finding); embeddings add nothing
            if got:
                key = "acceptable-example-reported:%s" % ident if case["kind"] == "as-is" else "acceptable-embedding-reported:%s:%s" % (case["cmd"], case["kind"].rstrip("23") if case["kind"].startswith("repeat") else case["kind"])
                ctx.discrepancy(key, "%s label %r (%s): the documented fix / acceptable code is reported: %r" % (ident, row["label"], case["kind"], got[:2]), rep, files)
            continue
        b = base.get((row["doc"], row["line"]))
        if case["kind"] == "as-is":
            if row["class"] == "illustrative":
                ctx.count("illustrative_reported" if got else "illustrative_not_reported")
                continue
            if not got:
                ctx.discrepancy("violating-example-not-reported:%s" % ident, "%s label %r: the documented violating example yields no %s* violation" % (ident, row["label"], case["prefix"]), rep, files)
            continue
        if not b:
            continue  # base itself is a (reported) deviation; embeddings add nothing
        exp_lines = sorted(m[x[2]] for m in case["maps"] for x in b if x[2] < len(m))
        if -1 in exp_lines:
            ctx.count("embeddings_skipped_finding_outside_moved_part")
            continue
        got_lines = sorted(x[2] for x in got)
        ctx.count("embeddings_checked")
        ctx.obs.setdefault("embeddings_checked_by_linter_and_scope", {})
        ek = "%s:%s" % (case["cmd"], case["kind"].split("+")[-1])
        ctx.obs["embeddings_checked_by_linter_and_scope"][ek] = ctx.obs["embeddings_checked_by_linter_and_scope"].get(ek, 0) + 1
        if len(got) != len(b) * case["mult"] or exp_lines != got_lines:
            ctx.discrepancy("embedding-changes-findings:%s:%s" % (case["cmd"], case["kind"].rstrip("23") if case["kind"].startswith("repeat") else case["kind"]), "%s (%s) embedded %s: base %d finding(s) at lines %r, embedded %d at %r (expected %r)" % (
                ident, row["label"], case["kind"], len(b), sorted(x[2] for x in b), len(got), got_lines, exp_lines), rep, dict(files, **{"original%s" % EXT[case["lang"]]: case["orig"]}))
    if judged:
        ctx.sample({"doc": judged[0]["doc"], "line": judged[0]["line"], "label": judged[0]["label"], "class": judged[0]["class"], "text": judged[0]["text"][:300]})
    ctx.obs["docs_covered"] = sorted({r["doc"] for r in judged})
    ctx.inconclusive_if(len(judged) < 60, "fewer than 60 judged documentation examples")
