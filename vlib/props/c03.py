"""C03 - DRY findings are sound, mutual and complete.

Monitor: boundary trace of `thailint dry` on generated multi-file projects built from a pool of ordinary single-line
statements with planted duplicate runs (known length, multiplicity, places). Offline checker with an independent
normaliser: soundness (named text identical), mutuality (named place itself reported), completeness (every planted
occurrence intersected by a violation when K >= min_duplicate_lines and M >= min_occurrences, none below), occurrence
count, and silence on duplicate-free projects.
"""
from __future__ import annotations

import json
import re
from collections import Counter, defaultdict

from .. import runner

# header comments end in non-ASCII text: from there on byte offsets and character offsets differ (Latin-1 supplement, Thai, CJK, astral plane)
NON_ASCII = " \u2014 g\u00e9n\u00e9r\u00e9 \u0e2a\u0e23\u0e49\u0e32\u0e07 \u751f\u6210 \U0001f600"

MSG = re.compile(r"^Duplicate code \((\d+) lines?, (\d+) occurrences?\)\. Also found in: (.*)$")
LOC = re.compile(r"^(.*):(\d+)-(\d+)$")


def stmt(lang, k):
    forms = [
        ("val_%d = compute_%d(alpha, beta) + offset_%d", "const val_%d = compute_%d(alpha, beta) + offset_%d;"),
        ("register_%d(alpha, 'name_%d', beta + %d)", "register_%d(alpha, 'name_%d', beta + %d);"),
        ("alpha = transform_%d(alpha, scale_%d, %d)", "alpha = transform_%d(alpha, scale_%d, %d);"),
        ("items_%d.append(build_%d(alpha) * %d)", "items_%d.push(build_%d(alpha) * %d);"),
        # ordinary statements that contain a comment marker of the OTHER language, or one inside a string literal
        ("alpha = alpha // %d + scale_%d * %d", "alpha = lookup('#tag_%d', scale_%d, %d);"),
        ("alpha = fetch('http://host_%d/', scale_%d, %d)", "alpha = fetch('http://host_%d/', scale_%d, %d);"),
        ("alpha = label('#%d', scale_%d, %d)", "alpha = label(\"#%d\", scale_%d, %d);"),
    ]
    py, ts = forms[k % len(forms)]
    return (py if lang == "py" else ts) % (k, k, k)


class FileB:
    def __init__(self, lang):
        self.lang = lang
        self.lines = []

    def add(self, t):
        self.lines.append(t)
        return len(self.lines)


def gen_project(rng, idx, W, min_occ):
    """-> files {path: text}, runs [{"K","M","lang","places":[(file, first, last)],"suppressed":[i]}]"""
    uid = [idx * 100000]

    def fresh():
        uid[0] += 1
        return uid[0]
    nfiles = rng.randint(2, 6)
    langs = [rng.choice(["py", "py", "ts", "js"]) for _ in range(nfiles)]
    if rng.random() < 0.7:
        langs = [langs[0] if langs[0] != "js" else "ts"] * nfiles if rng.random() < 0.5 else langs
    fbs = [FileB(l) for l in langs]
    names = ["%s/mod%d_%d.%s" % ("src" if i % 2 == 0 else "lib", idx, i, l) for i, l in enumerate(langs)]
    # plan runs
    runs = []
    for _ in range(rng.randint(0, 3)):
        lang_family = rng.choice(sorted({("py" if l == "py" else "ts") for l in langs}))
        cand = [i for i, l in enumerate(langs) if ("py" if l == "py" else "ts") == lang_family]
        K = rng.randint(max(2, W - 1), W + 4)
        M = rng.randint(2, 5)
        ids = [fresh() for _ in range(K)]
        places = [rng.choice(cand) for _ in range(M)]
        runs.append({"K": K, "M": M, "family": lang_family, "ids": ids, "place_files": places, "places": [], "suppressed": []})
    # per file: list of functions; distribute occurrences
    per_file = defaultdict(list)
    for ri, r in enumerate(runs):
        for oi, fi in enumerate(r["place_files"]):
            per_file[fi].append((ri, oi))
    periodic = []
    suppress_choice = {}
    for ri, r in enumerate(runs):
        if rng.random() < 0.2 and r["family"] == "py" and r["M"] >= 3:
            suppress_choice[ri] = rng.randrange(r["M"])
    for fi, fb in enumerate(fbs):
        py = fb.lang == "py"
        if py:
            fb.add('"""Generated module %d%s."""' % (fresh(), NON_ASCII))
            fb.add("import os")
        else:
            fb.add("// Generated module %d%s" % (fresh(), NON_ASCII))
            if fb.lang == "ts" and rng.random() < 0.5:
                # a multi-line type declaration (its members are declarations, not statements; every member name is unique): whatever a file
                # declares must not influence what is found in other files
                t_id = fresh()
                fb.add(rng.choice(["interface Shape_%d {", "export interface Shape_%d {", "type Shape_%d = {"]) % t_id)
                for _ in range(rng.randint(2, 14)):
                    fb.add("  field_%d: number;" % fresh())
                fb.add("}")
        if rng.random() < 0.3:
            # characters that str.splitlines() takes for line breaks and no parser does: a page-break line, separators inside a comment
            fb.add("\x0c")
            fb.add("%s section \x0b\x1c\x85\u2028 break" % ("#" if py else "//"))
        occs = per_file.get(fi, [])
        rng.shuffle(occs)
        nfunc = max(1, len(occs)) + rng.randint(0, 1)
        slots = occs + [None] * (nfunc - len(occs))
        rng.shuffle(slots)
        for slot in slots:
            fb.add("")
            f_id = fresh()
            # where the statements live: a plain function, a method (sync or async, also as the FIRST member of its class), a method of a nested class,
            # an arrow-function class property (a class without any method definition)
            holder = rng.choice(["plain"] * 5 + (["method", "async-method", "async-method", "nested-class-method", "async-function"] if py else ["method", "arrow-property", "arrow-property"]))
            closers = []
            if py:
                if holder == "plain":
                    fb.add("def fn_%d(alpha, beta):" % f_id)
                    ind = "    "
                elif holder == "async-function":
                    fb.add("async def fn_%d(alpha, beta):" % f_id)
                    ind = "    "
                elif holder == "nested-class-method":
                    fb.add("class Outer_%d:" % f_id)
                    fb.add("    class Inner_%d:" % f_id)
                    fb.add("        def fn_%d(self, alpha, beta):" % f_id)
                    ind = " " * 12
                else:
                    fb.add("class Box_%d:" % f_id)
                    fb.add("    %sdef fn_%d(self, alpha, beta):" % ("async " if holder == "async-method" else "", f_id))
                    ind = " " * 8
            else:
                if holder == "plain":
                    fb.add("function fn_%d(alpha, beta) {" % f_id)
                    ind, closers = "  ", ["}"]
                elif holder == "method":
                    fb.add("class Box_%d {" % f_id)
                    fb.add("  fn_%d(alpha, beta) {" % f_id)
                    ind, closers = "    ", ["  }", "}"]
                else:
                    fb.add("class Box_%d {" % f_id)
                    fb.add("  fn_%d = (alpha, beta) => {" % f_id)
                    ind, closers = "    ", ["  };", "}"]
            for _ in range(rng.randint(1, 3)):
                fb.add(ind + stmt(fb.lang, fresh()))
            if slot is not None:
                ri, oi = slot
                r = runs[ri]
                deeper = py and rng.random() < 0.3
                if deeper:
                    fb.add("%sif alpha > limit_%d:" % (ind, fresh()))
                    ind2 = ind + "    "
                else:
                    ind2 = ind
                sup = suppress_choice.get(ri) == oi
                if sup:
                    fb.add("%s# thailint: ignore-start dry" % ind2)
                noisy = rng.random() < 0.4
                first = None
                for sid in r["ids"]:
                    if noisy and rng.random() < 0.3:
                        fb.add("")
                    if noisy and rng.random() < 0.3:
                        fb.add(("%s/* note %d */" if (not py and rng.random() < 0.4) else "%s" + ("#" if py else "//") + " note %d") % (ind2, fresh()))
                    text = ind2 + stmt(fb.lang, sid)
                    if noisy and rng.random() < 0.3:
                        # (a trailing comment in any of the language's spellings: line, block, doc block)
                        text += ("  # trailing %d" if py else rng.choice(["  // trailing %d", "  /* trailing %d */", "  /** trailing %d */"])) % fresh()
                    ln = fb.add(text)
                    first = first or ln
                last = len(fb.lines)
                if sup:
                    fb.add("%s# thailint: ignore-end" % ind2)
                    r["suppressed"].append(len(r["places"]))
                r["places"].append([names[fi], first, last])
                r.setdefault("holders", {})[len(r["places"]) - 1] = holder if fb.lang == "py" or holder == "plain" else "ts-" + holder
                if deeper:
                    fb.add(ind + stmt(fb.lang, fresh()))
            for _ in range(rng.randint(1, 2)):
                fb.add(ind + stmt(fb.lang, fresh()))
            if rng.random() < 0.12:
                # periodic region: one statement (or an A B pattern) repeated back to back -> windows overlap themselves.
                # The number of 'distinct, non-overlapping places' is judged by the soundness oracle only.
                a, b2 = stmt(fb.lang, fresh()), stmt(fb.lang, fresh())
                reps = rng.randint(2, 7)
                first = len(fb.lines) + 1
                for k in range(reps):
                    fb.add(ind + a)
                    if rng.random() < 0.5 and False:
                        fb.add(ind + b2)
                periodic.append([names[fi], first, len(fb.lines)])
                fb.add(ind + stmt(fb.lang, fresh()))
            fb.add("%sreturn alpha + tail_%d%s" % (ind, fresh(), "" if py else ";"))
            for c_ in closers:
                fb.add(c_)
    files = {}
    for name, fb in zip(names, fbs):
        text = "\n".join(fb.lines) + "\n"
        files[name] = text
    # boundary file: its countable lines are exactly one occurrence of a run (plus comment / blank / import lines)
    for ri, r in enumerate(runs):
        if rng.random() < 0.35:
            lang = "py" if r["family"] == "py" else "ts"
            cmt = "#" if lang == "py" else "//"
            lines = ["%s tiny module %d" % (cmt, fresh()), ""]
            if lang == "py":
                lines.append("import os")
            first = len(lines) + 1
            lines += [stmt(lang, sid) for sid in r["ids"]]
            last = len(lines)
            lines.append("")
            name = "%s/tiny%d_%d.%s" % ("src" if ri % 2 == 0 else "lib", idx, ri, lang)
            files[name] = "\n".join(lines) + "\n"
            r["places"].append([name, first, last])
            r["M"] += 1
    if periodic:
        runs.append({"K": 0, "M": 0, "family": "periodic", "ids": [], "place_files": [], "places": periodic, "suppressed": [], "periodic": True})
    return files, runs


def strip_comment(raw, cm):
    """Harness-side comment removal: the language's own line-comment marker outside string literals; closed /* */ comments in brace languages."""
    out, q, i = [], None, 0
    while i < len(raw):
        ch = raw[i]
        if q:
            out.append(ch)
            if ch == "\\" and i + 1 < len(raw):
                out.append(raw[i + 1])
                i += 1
            elif ch == q:
                q = None
        elif ch in "\"'`":
            q = ch
            out.append(ch)
        elif raw.startswith(cm, i):
            break
        elif cm == "//" and raw.startswith("/*", i) and raw.find("*/", i + 2) >= 0:
            i = raw.find("*/", i + 2) + 1
            out.append(" ")
        else:
            out.append(ch)
        i += 1
    return "".join(out)


def code_lines(text_lines, start, lang, n=None, end=None):
    """Normalised code lines from 1-based `start`: first n code lines, or all code lines up to `end`."""
    out = []
    i = start
    cm = "#" if lang == "py" else "//"
    while i <= len(text_lines) and (n is None or len(out) < n) and (end is None or i <= end):
        raw = strip_comment(text_lines[i - 1], cm)
        norm = " ".join(raw.split())
        if norm:
            out.append(norm)
        i += 1
    return out, i - 1


def exec_case(case):
    d = runner.new_dir("y")
    import yaml
    cfg = {"dry": {"enabled": True, "min_duplicate_lines": case["W"], "min_occurrences": case["min_occ"], "storage_mode": case["storage"]}}
    for lang, v_ in (case.get("lang_mo") or {}).items():
        cfg["dry"][lang] = {"min_occurrences": v_}  # documented per-language override (may be lower or higher than the global value)
    extra = {".thailint.yaml": yaml.safe_dump(cfg)}
    runner.write_tree(d, dict(case["files"], **extra))
    r = runner.cli(["dry", "--format", "json"] + case["targets"], d)
    vs = r.violations()
    return {"exit": r.exit, "rows": None if vs is None else [[v["rule_id"], v["file_path"], v["line"], v["message"]] for v in vs], "err": r.err[-300:], "extra": extra}


def probe_comment_marker_in_string(ctx):
    """Hostile variant: runs that differ only inside string literals, after a '#' (py) or '//' (ts)."""
    def body(lang, tag):
        if lang == "py":
            return "def fn_%s(alpha):\n" % tag + "".join("    val_%d = lookup(alpha, \"key_%d#%s_%d\")\n" % (k, k, tag, k) for k in range(5)) + "    return alpha\n"
        return "function fn_%s(alpha) {\n" % tag + "".join("  const val_%d = lookup(alpha, \"http://host_%d//%s_%d\");\n" % (k, k, tag, k) for k in range(5)) + "  return alpha;\n}\n"
    for lang in ("py", "ts"):
        files = {"src/a.%s" % lang: body(lang, "left"), "src/b.%s" % lang: body(lang, "right"),
                 ".thailint.yaml": "dry:\n  enabled: true\n  min_duplicate_lines: 3\n"}
        d = runner.new_dir("y")
        runner.write_tree(d, files)
        r = runner.cli(["dry", "--format", "json", "."], d)
        vs = r.violations()
        ctx.evaluations += 1
        ctx.count("probe_marker_in_string")
        if vs:
            ctx.discrepancy("comment-marker-inside-string:" + lang, "two files whose lines differ inside string literals after a %s are reported as duplicates of each other (%d violations): "
                            "lines are cut at the first comment marker even inside a string" % ("'#'" if lang == "py" else "'//'", len(vs)),
                            {"argv": ["dry", "--format", "json", "."]}, files)


def run(ctx):
    ctx.rule = ("case = generated 2-6 file py/ts/js project from a pool of unique single-line statements with 0-3 planted runs (length W-1..W+4, multiplicity 2-5, "
                "in different files or twice in one, different indentation, interleaved blank/comment lines, one occurrence possibly suppressed) x (min_duplicate_lines W in 2..6, "
                "min_occurrences in 2..4, storage mode, '.' or explicit mixed arguments); distinct non-trivial = (W, min_occ, sorted (K, M, family) of the runs) with >= 1 planted run")
    ctx.assumptions = ["every non-planted line embeds a fresh identifier, so only planted runs are shared", "'covered' = intersected by a violation's line range",
                       "independent normaliser: cut at the comment marker (no marker inside strings in this workload), collapse whitespace, drop empty lines",
                       "hostile variants (comment markers inside string literals, /* */ lines) are probes, not part of the strict oracle"]
    rng = ctx.rng()
    cases = []
    for i in range(ctx.size(200, 3000)):
        W = rng.choice([2, 3, 3, 4, 5, 6])
        mo = rng.choice([2, 2, 2, 3, 4])
        files, runs = gen_project(rng, i, W, mo)
        names = sorted(files)
        r = rng.random()
        if r < 0.5:
            targets = ["."]
        elif r < 0.65:
            targets = names[::-1]
        elif r < 0.8:
            targets = [n for n in names if n.startswith("src/")] + ["lib"]   # explicit files + a directory (disjoint)
        else:
            targets = ["lib", "src"]
        lang_mo = {}
        if rng.random() < 0.4:
            if rng.random() < 0.7:
                lang_mo["python"] = rng.choice([2, 3, 4])
            if rng.random() < 0.7:
                lang_mo["typescript"] = lang_mo["javascript"] = rng.choice([2, 3, 4])  # (a run may span .ts and .js files: one value for both)
        cases.append({"i": i, "W": W, "min_occ": mo, "lang_mo": lang_mo, "files": files, "runs": runs, "storage": rng.choice(["memory", "memory", "tempfile"]), "targets": targets})
    outs = runner.pmap(exec_case, cases, timeout=600)
    for case, o in zip(cases, outs):
        if not o.get("ok"):
            ctx.inconclusive_if(True, "case failed in harness: %s" % str(o)[:300])
            continue
        v = o["value"]
        ctx.evaluations += 1
        files = dict(case["files"], **v["extra"])
        rep = {"argv": ["dry", "--format", "json"] + case["targets"], "W": case["W"], "min_occurrences": case["min_occ"],
               "runs": [{k: r[k] for k in ("K", "M", "places", "suppressed")} for r in case["runs"]]}
        if v["rows"] is None or v["exit"] not in (0, 1):
            ctx.inconclusive_if(True, "case %d: dry run failed: exit %s %s" % (case["i"], v["exit"], v["err"]))
            continue
        W, mo_global = case["W"], case["min_occ"]
        lang_mo = case.get("lang_mo") or {}

        def mo_of(family):
            return lang_mo.get("python" if family == "py" else "typescript", mo_global)
        rep["per_language_min_occurrences"] = lang_mo
        text = {f: t.split("\n") for f, t in case["files"].items()}
        viols = []
        for rule, fp, line, msg in v["rows"]:
            m = MSG.match(msg)
            if rule != "dry.duplicate-code" or not m or fp not in text:
                ctx.discrepancy("unexpected-row", "case %d: %r" % (case["i"], [rule, fp, line, msg[:120]]), rep, files)
                continue
            n, occ = int(m.group(1)), int(m.group(2))
            locs = []
            for part in m.group(3).rstrip(".").split(", "):
                lm = LOC.match(part.strip())
                if lm:
                    locs.append((lm.group(1), int(lm.group(2)), int(lm.group(3))))
                else:
                    ctx.discrepancy("unparsable-location", "case %d: %r" % (case["i"], part), rep, files)
            lang = "py" if fp.endswith(".py") else "ts"
            # "N lines" is the span in original line numbers (blank/comment lines inside the run included)
            block, last = code_lines(text[fp], line, lang, end=line + n - 1)
            last = line + n - 1
            viols.append({"file": fp, "line": line, "last": last, "n": n, "occ": occ, "locs": locs, "block": block, "lang": lang})
        ctx.count("violations_checked", len(viols))
        if case["runs"]:
            ctx.nontrivial([W, mo, sorted((r["K"], r["M"], r["family"]) for r in case["runs"] if not r.get("periodic"))])
        else:
            ctx.count("duplicate_free_projects")
        # soundness + mutuality
        for vi in viols:
            if not vi["locs"]:
                ctx.discrepancy("names-no-other-location", "case %d: %s:%d names no other location" % (case["i"], vi["file"], vi["line"]), rep, files)
            for (lf, ls, le) in vi["locs"]:
                if lf not in text:
                    ctx.discrepancy("named-unknown-file", "case %d: %s:%d names %s" % (case["i"], vi["file"], vi["line"], lf), rep, files)
                    continue
                other, _ = code_lines(text[lf], ls, "py" if lf.endswith(".py") else "ts", end=le)
                if other != vi["block"]:
                    ctx.discrepancy("named-text-differs", "case %d: %s:%d block %r but named %s:%d-%d is %r" % (
                        case["i"], vi["file"], vi["line"], vi["block"][:2], lf, ls, le, other[:2]), rep, files)
                covered = any(o2["file"] == lf and not (o2["last"] < ls or o2["line"] > le) for o2 in viols)
                suppressed_here = any(p[0] == lf and not (p[2] < ls or p[1] > le) and pi in r["suppressed"]
                                      for r in case["runs"] for pi, p in enumerate(r["places"]))
                if not covered and not suppressed_here:
                    ctx.discrepancy("named-location-not-reported", "case %d: %s:%d names %s:%d-%d which no violation covers" % (
                        case["i"], vi["file"], vi["line"], lf, ls, le), rep, files)
            if vi["occ"] != len(vi["locs"]) + 1:
                ctx.discrepancy("count-vs-locations", "case %d: %s:%d says %d occurrences but names %d other locations" % (
                    case["i"], vi["file"], vi["line"], vi["occ"], len(vi["locs"])), rep, files)
        # completeness / silence
        planted_ranges = []
        for vi in viols:
            ctx.count("min_occurrences_checked")
            mo = mo_of(vi["lang"])
            if vi["occ"] < mo:
                ctx.discrepancy("below-min-occurrences", "case %d: %s:%d reported with %d occurrence(s) although min_occurrences is %d" % (case["i"], vi["file"], vi["line"], vi["occ"], mo), rep, files)
        for r in case["runs"]:
            if r.get("periodic"):
                planted_ranges += [tuple(p) for p in r["places"]]
                ctx.count("periodic_regions", len(r["places"]))
                continue
            mo = mo_of(r["family"])
            if lang_mo:
                ctx.count("runs_judged_under_language_override")
            should = r["K"] >= W and r["M"] >= mo
            for pi, (pf, a, b) in enumerate(r["places"]):
                planted_ranges.append((pf, a, b))
                hits = [vi for vi in viols if vi["file"] == pf and not (vi["last"] < a or vi["line"] > b)]
                ctx.count("occurrences_checked")
                if pi in r["suppressed"]:
                    ctx.count("suppressed_occurrences")
                    if hits:
                        ctx.discrepancy("suppressed-occurrence-reported", "case %d: occurrence %s:%d-%d sits in an ignore-start/end dry block but is reported" % (case["i"], pf, a, b), rep, files)
                    continue
                if should and not hits:
                    hold = (r.get("holders") or {}).get(pi, "plain")
                    ctx.discrepancy("missed-occurrence" + ("" if hold in ("plain", None) else ":inside-" + hold), "case %d: planted run K=%d M=%d (W=%d, min_occ=%d) occurrence %s:%d-%d not covered by any violation" % (
                        case["i"], r["K"], r["M"], W, mo, pf, a, b), rep, files)
                if not should and hits:
                    why = "K<W" if r["K"] < W else "M<min_occurrences"
                    ctx.discrepancy("reported-below-threshold:" + why, "case %d: run K=%d M=%d (W=%d, min_occ=%d) occurrence %s:%d-%d reported" % (
                        case["i"], r["K"], r["M"], W, mo, pf, a, b), rep, files)
                if should and not r["suppressed"]:
                    for h in hits:
                        ctx.count("counts_checked")
                        if h["occ"] != r["M"]:
                            ctx.discrepancy("occurrence-count", "case %d: run with %d places, violation at %s:%d says %d occurrences" % (case["i"], r["M"], pf, h["line"], h["occ"]), rep, files)
        for vi in viols:
            if not any(vi["file"] == pf and not (vi["last"] < a or vi["line"] > b) for (pf, a, b) in planted_ranges):
                ctx.discrepancy("violation-outside-planted-runs", "case %d: %s:%d (%d lines) intersects no planted run: %r" % (case["i"], vi["file"], vi["line"], vi["n"], vi["block"][:2]), rep, files)
    probe_comment_marker_in_string(ctx)
    c0 = next(c for c in cases if c["runs"])
    ctx.sample({"W": c0["W"], "min_occurrences": c0["min_occ"], "runs": [{k: r[k] for k in ("K", "M", "places", "suppressed")} for r in c0["runs"]],
                "file": sorted(c0["files"])[0], "head": c0["files"][sorted(c0["files"])[0]][:500]})
    ctx.inconclusive_if(ctx.counters["occurrences_checked"] < 100 or ctx.counters["violations_checked"] < 50, "too few occurrences / violations observed")
    ctx.inconclusive_if(ctx.counters["duplicate_free_projects"] < 5, "fewer than 5 duplicate-free projects")
