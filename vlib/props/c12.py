"""C12 - every violation points at a real location of the construct it describes.

Monitors: (1) location contract on every reported violation of every command over generated workloads (file part of
the run, 1 <= line <= #lines, 0 <= column <= byte length of that line), checked at the CLI boundary; (2) an icontract
postcondition on the real Orchestrator.lint_file inside the running process (returned violations name the linted file,
line/column in range) with evaluation counters; (3) construct-on-line oracle with ground truth from the generators
(literal, function header, class header, call, first line of the duplicated block, quoted names on the line).
"""
from __future__ import annotations

import os
import re

from .. import runner
from ..gen import classes, ctrl, lits, triggers
from . import c17

PLACEHOLDER_NAMES = {"arrow_function", "function_expression", "anonymous"}
NEST_MSG = re.compile(r"Function '([^']+)' has excessive nesting depth")
SRP_MSG = re.compile(r"Class '([^']+)' may violate SRP")
MAGIC_MSG = re.compile(r"^Magic number (\S+) should be")
STATELESS_MSG = re.compile(r"Class '([^']+)' has no state")
METHOD_MSG = re.compile(r"Method '([^']+)' in class '([^']+)'")
PIPE_MSG = re.compile(r"For loop over '([^']+)'")
PERF_MSG = re.compile(r"'([^']+)'")
DRY_MSG = re.compile(r"^Duplicate code \((\d+) lines")

# ----------------------------------------------------------------------------- in-process contract (M-CON)
_contract = {"evaluations": 0, "failures": []}


def install_contract():
    """Runs in the forked CLI child before cli.main: icontract postcondition on the real Orchestrator.lint_file."""
    import icontract

    import src.orchestrator.core as core

    class LocationContractBroken(Exception):
        pass

    def locations_ok(file_path, result):
        _contract["evaluations"] += 1
        try:
            with open(file_path, "rb") as f:
                raw = f.read()
        except OSError:
            return True
        lines = raw.split(b"\n")
        for v in result:
            if str(v.message).startswith("Syntax error"):
                continue
            if os.path.normpath(str(v.file_path)) != os.path.normpath(str(file_path)) and not str(file_path).endswith(os.path.normpath(str(v.file_path))):
                _contract["failures"].append(["file", v.rule_id, str(v.file_path), str(file_path)])
            elif not (1 <= v.line <= max(1, len(lines))):
                _contract["failures"].append(["line", v.rule_id, str(v.file_path), v.line, len(lines)])
            elif v.column < 0 or v.column > len(lines[v.line - 1]) + 1:
                _contract["failures"].append(["column", v.rule_id, str(v.file_path), v.line, v.column, len(lines[v.line - 1])])
        return True  # record, never abort what is being observed

    # the per-file step of every entry point (lint_file, lint_files, lint_directory, pool workers): what it returns is about THAT file
    prim = "_lint_file_with_rules" if hasattr(core.Orchestrator, "_lint_file_with_rules") else "lint_file"
    setattr(core.Orchestrator, prim, icontract.ensure(locations_ok, error=LocationContractBroken)(getattr(core.Orchestrator, prim)))


def dump_contract(extra):
    extra["contract"] = dict(_contract)


# ----------------------------------------------------------------------------- workload
EXOTIC = "\x0c\x0b\x1c\x1d\x1e\x85\u2028"  # line breaks for str.splitlines() only - not for ast / tree-sitter, whose numbering the reports use


def relayout(text, facts_lines, lead, crlf, strip_final_newline, comment, exotic=False):
    """Prefix `lead` comment/blank lines, optionally CRLF / no trailing newline. Returns (text, shift)."""
    if exotic:
        lead = max(lead, 2)
    head = "".join((comment + " filler %d%s\n" % (i, EXOTIC if exotic else "")) if i % 3 else "\n" for i in range(lead))
    out = head + text
    if strip_final_newline and out.endswith("\n"):
        out = out[:-1]
    if crlf:
        out = out.replace("\n", "\r\n")
    return out, lead


MULTI_PY = '''import functools


@functools.lru_cache(
    maxsize=None,
)
def decorated_NAME(
    a,
    items,
):
    for i in items:
        if a:
            while a:
                work(i)


class Big_NAME:
    @staticmethod
    def deep_NAME(
        a, items
    ):
        for i in items:
            if a:
                print(
                    "multi",
                    a * 4217,
                )
'''
MULTI_RS = '''fn chain_NAME(opt: Option<i32>, items: Vec<String>) -> i32 {
    let v = opt
        .map(|x| x + 1)
        .unwrap();
    for item in items.iter() {
        let c = item
            .clone();
        consume(c, item);
    }
    v
}
'''


TEMPORAL = ["currently", "recently", "Created 2024-01-05", "replaces the old reader", "temporarily", "will be extended", "now supports", "formerly"]
FIELDS = ["Purpose", "Scope", "Overview", "Dependencies", "Exports", "Interfaces", "Implementation"]


def header_case(rng, idx):
    """py / ts / sh files whose header carries 0-3 temporal phrases on random field or continuation lines, blank lines between fields at random."""
    files, facts = {}, {}
    for ext, open_, pre, close in ((".py", '\"\"\"', "", '\"\"\"'), (".ts", "/**", " * ", " */"), (".sh", None, "# ", None)):
        lines = ["#!/bin/bash"] if ext == ".sh" else []
        if open_:
            lines.append(open_)
        for f in FIELDS:
            body = "plain text about %s" % f.lower()
            if rng.random() < 0.3:
                body += " " + rng.choice(TEMPORAL)
            lines.append((pre + "%s: %s" % (f, body)).rstrip())
            if rng.random() < 0.4:
                lines.append((pre + "    continued " + (rng.choice(TEMPORAL) if rng.random() < 0.4 else "without anything special")).rstrip())
            if rng.random() < 0.5:
                lines.append(pre.rstrip())
        if close:
            lines.append(close)
        lines += ["", {".py": "def f_%d(a):\n    return a" % idx, ".ts": "export function f_%d(a: number): number { return a; }" % idx, ".sh": "echo %d" % idx}[ext], ""]
        f = "pkg/h%d%s" % (idx, ext)
        files[f] = "\n".join(lines)
        facts[f] = {"kind": "header"}
    return {"idx": idx, "files": files, "facts": facts, "cmds": [["file-header"]], "layout": {"lead": 0, "crlf": False, "no_final_newline": False, "exotic_separators": False}}


def make_case(rng, idx):
    lead = rng.choice([0, 0, 1, 7, 60, 400])
    crlf = rng.random() < 0.25
    nonl = rng.random() < 0.3
    exotic = rng.random() < 0.25

    def rl(*a):
        return relayout(*a, exotic=exotic)
    files, facts = {}, {}
    kind = idx % 8
    if kind == 7:  # file headers with temporal wording on known lines (the finding quotes the word: it must be on the reported line)
        return header_case(rng, idx)
    if kind == 6:  # duplicate constants across files, single- and multi-declarator, multi-line declarations
        names = ["RETRY_MS_%d" % idx, "ALPHA_LIMIT_%d" % idx, "POOL_WIDTH_%d" % idx, "BATCH_SIZE_%d" % idx]
        vals = [rng.randint(11, 999) for _ in names]
        ts_a = "const %s = %d,\n  %s = %d,\n  %s = %d;\nexport const\n  %s = %d;\n" % (names[2], vals[2], names[0], vals[0], names[1], vals[1], names[3], vals[3])
        ts_b = "".join("export const %s = %d;\n" % (n, v) for n, v in zip(names, vals))
        py_a = "%s = %d\n\n%s = (\n    %d\n)\n%s = %d\n" % (names[0], vals[0], names[1], vals[1], names[3], vals[3])
        py_b = "".join("%s = %d\n" % (n, v) for n, v in zip(names[:2], vals))
        for fname, text, cm in (("pkg/k%d_a.ts" % idx, ts_a, "//"), ("pkg/k%d_b.ts" % idx, ts_b, "//"), ("pkg/k%d_a.py" % idx, py_a, "#"), ("pkg/k%d_b.py" % idx, py_b, "#")):
            text, shift = rl(text, None, lead if lead < 100 else 3, crlf, nonl, cm)
            files[fname] = text
            facts[fname] = {"kind": "constants"}
        files[".thailint.yaml"] = "dry:\n  enabled: true\n  detect_duplicate_constants: true\n  min_duplicate_lines: 50\n"
        cmds = [["dry"]]
    elif kind == 5:  # multi-line constructs: decorated / multi-line headers, multi-line calls
        py = MULTI_PY.replace("NAME", "m%d" % idx)
        rs = MULTI_RS.replace("NAME", "m%d" % idx)
        py, sh1 = rl(py, None, lead, crlf, nonl, "#")
        rs, sh2 = rl(rs, None, lead, crlf, nonl, "//")
        files["pkg/x%d.py" % idx] = py
        files["pkg/x%d.rs" % idx] = rs
        facts["pkg/x%d.py" % idx] = {"kind": "multiline", "headers": {"decorated_m%d" % idx: 7 + sh1, "deep_m%d" % idx: 19 + sh1}, "spans": {"improper-logging": [24 + sh1, 27 + sh1], "magic-numbers": [26 + sh1, 26 + sh1]}}
        facts["pkg/x%d.rs" % idx] = {"kind": "multiline", "headers": {"chain_m%d" % idx: 1 + sh2}, "spans": {"unwrap-abuse": [2 + sh2, 4 + sh2], "clone-abuse": [6 + sh2, 7 + sh2]}}
        cmds = [["nesting", "--max-depth", "1"], ["improper-logging"], ["magic-numbers"], ["unwrap-abuse"], ["clone-abuse"]]
    elif kind == 0:  # nesting: header line + quoted name
        for lang in ("py", "ts", "rs"):
            funcs = [{"name": "fn%d_%s_%d" % (idx, lang, j), "style": rng.choice(["func", "method"] + (["arrow", "wrapped", "fexpr"] if lang == "ts" else [])),
                      "block": ctrl.no_lone_if_in_else(ctrl.gen_chain(rng, ctrl.kinds_for(lang), rng.randint(2, 6)))} for j in range(rng.randint(1, 4))]
            text, fx = ctrl.render(lang, funcs, indent=rng.choice(["    ", "  "]), gap=rng.randint(0, 3), prefix="c%d" % idx)
            cm = "#" if lang == "py" else "//"
            text, shift = rl(text, None, lead if lang != "py" or True else 0, crlf, nonl, cm)
            f = "pkg/n%d%s" % (idx, ctrl.EXT[lang])
            files[f] = text
            facts[f] = {"kind": "nesting", "items": {n: fx[n]["line"] + shift for n in fx}, "anonymous_lines": sorted(fx[n]["line"] + shift for n in fx if fx[n].get("anonymous"))}
        cmds = [["nesting", "--max-depth", "1"]]
    elif kind == 1:  # magic numbers: literal on the line
        for lang, gen in (("py", lambda: lits.gen_py(rng, rng.randint(8, 25))), ("ts", lambda: lits.gen_ts(rng, rng.randint(8, 20))), ("rs", lambda: lits.gen_rs(rng, rng.randint(8, 20)))):
            text, occ = gen()
            cm = "#" if lang == "py" else "//"
            text, shift = rl(text, None, lead, crlf, nonl, cm)
            f = "pkg/m%d%s" % (idx, ctrl.EXT[lang])
            files[f] = text
            facts[f] = {"kind": "magic", "items": [[o["line"] + shift, o["value"], o["text"]] for o in occ if o["text"]]}
        cmds = [["magic-numbers"]]
    elif kind == 2:  # srp / stateless: class header line + quoted name
        for lang in ("py", "ts", "rs"):
            text, fx = classes.gen_file(rng, lang, idx, 2, 8, rng.randint(1, 3))
            cm = "#" if lang == "py" else "//"
            text, shift = rl(text, None, lead, crlf, nonl, cm)
            f = "pkg/s%d%s" % (idx, ctrl.EXT[lang])
            files[f] = text
            items = {}
            for c in fx:
                # same-named types may live in different modules / hosts of one file: each of their header lines is a header of that name
                # (the method-less three-line namesake in a `mod shadow_N` is under both thresholds: never its line)
                if c.get("form") != "shadow":
                    items.setdefault(c["name"], []).append(c["line"] + shift)
            facts[f] = {"kind": "class", "items": items}
        files[".thailint.yaml"] = "srp:\n  max_methods: 1\n  max_loc: 4\n"
        cmds = [["srp"], ["stateless-class"]]
    elif kind == 3:  # rust calls: the call's line
        text, planted = c17.gen_file(rng, idx)
        text, shift = rl(text, None, lead, crlf, nonl, "//")
        f = "pkg/r%d.rs" % idx
        files[f] = text
        facts[f] = {"kind": "rustcalls", "items": [[p["line"] + shift, p["kind"]] for p in planted]}
        files[".thailint.yaml"] = "unwrap-abuse:\n  allow_in_tests: false\n  allow_expect: false\nclone-abuse:\n  allow_in_tests: false\nblocking-async:\n  allow_in_tests: false\n"
        cmds = [["unwrap-abuse"], ["clone-abuse"], ["blocking-async"]]
    else:  # trigger project (print/console, pipeline, perf, method-property, lbyl, dry, stringly, file-header ...) with layout noise
        t = triggers.random_files(rng, tag="t%d" % idx)
        for k, v in t.items():
            if k == ".thailint.yaml":
                files[k] = v
                continue
            cm = "#" if k.endswith(".py") else "//"
            text, shift = rl(v, None, lead if lead < 100 else 5, crlf, nonl, cm)
            files[k] = text
            facts[k] = {"kind": "trigger", "shift": shift}
        cmds = [[c] for c in triggers.CMDS if c not in ("file-placement",)]
    return {"idx": idx, "files": files, "facts": facts, "cmds": cmds, "layout": {"lead": lead, "crlf": crlf, "no_final_newline": nonl, "exotic_separators": exotic}}


def exec_case(case):
    d = runner.new_dir("l")
    runner.write_tree(d, case["files"])
    out = []
    for cmd in case["cmds"]:
        r = runner.cli(cmd + ["--format", "json", "."], d)
        vs = r.violations()
        out.append({"cmd": cmd, "exit": r.exit, "v": vs, "contract": r["mon"].get("contract"), "err": r.err[-200:] if vs is None else ""})
    return out


def num(text):
    t = text.replace("_", "")
    for f in (lambda: int(t, 0), lambda: float(t)):
        try:
            return f()
        except ValueError:
            pass
    return None


NUMTOK = re.compile(r"(?:(?<![\w.])|(?<=\.\.))(0[xX][0-9a-fA-F_]+|0[oO][0-7_]+|0[bB][01_]+|\d[\d_]*\.?[\d_]*(?:[eE][+-]?\d+)?|\.\d+)(?:[iuf](?:8|16|32|64|128|size)|n)?")


def run(ctx):
    ctx.rule = ("case = generated file set (nesting / literals / classes / Rust calls / trigger project) with layout variation (0-400 leading comment or blank lines, CRLF, "
                "no final newline, indentation, blank lines between items) x commands; distinct non-trivial = (workload kind, layout, command) with >= 1 violation checked")
    ctx.assumptions = ["columns are byte offsets (ast.col_offset and tree-sitter columns are), so 0 <= column <= byte length of the line (+1 for 1-based reporters)",
                       "syntax-error notices are exempt; file-placement has no construct line", "line counting: universal newlines, a final line without newline counts"]
    runner.child_init_hooks.append(install_contract)
    runner.child_exit_hooks.append(dump_contract)
    rng = ctx.rng()
    cases = [make_case(rng, i) for i in range(ctx.size(150, 2500))]
    outs = runner.pmap(exec_case, cases, timeout=600)
    for case, o in zip(cases, outs):
        if not o.get("ok"):
            ctx.inconclusive_if(True, "case %d failed in harness: %s" % (case["idx"], str(o)[:300]))
            continue
        for res in o["value"]:
            ctx.evaluations += 1
            cmd = res["cmd"][0]
            rep = {"argv": res["cmd"] + ["--format", "json", "."], "layout": case["layout"]}
            files = case["files"]
            if res["v"] is None or res["exit"] not in (0, 1):
                ctx.inconclusive_if(True, "case %d `%s` failed: exit %s %s" % (case["idx"], cmd, res["exit"], res["err"]))
                continue
            c = res["contract"] or {}
            ctx.counters["contract_evaluations"] += c.get("evaluations", 0)
            for fail in c.get("failures", [])[:3]:
                ctx.discrepancy("contract:%s:%s" % (fail[0], str(fail[1]).split(".")[0]), "case %d `%s`: Orchestrator.lint_file postcondition: %r" % (case["idx"], cmd, fail), rep, files)
            if res["v"]:
                ctx.nontrivial([case["idx"] % 7, sorted(case["layout"].items()), cmd])
            for v in res["v"]:
                ctx.count("violations_checked")
                fp, line, col, msg, rule = v["file_path"], v["line"], v["column"], v["message"], v["rule_id"]
                fam = rule.split(".")[0]
                if msg.startswith("Syntax error"):
                    continue
                if fp not in files:
                    ctx.discrepancy("unknown-file:%s" % fam, "case %d `%s` names %r which is not part of the run" % (case["idx"], cmd, fp), rep, files)
                    continue
                raw = files[fp].encode("utf-8") if isinstance(files[fp], str) else files[fp]
                blines = raw.replace(b"\r\n", b"\n").replace(b"\r", b"\n").split(b"\n")
                if blines and blines[-1] == b"":
                    blines = blines[:-1] or [b""]
                if not (1 <= line <= len(blines)):
                    ctx.discrepancy("line-out-of-range:%s" % fam, "case %d `%s` %s:%s but the file has %d lines" % (case["idx"], cmd, fp, line, len(blines)), rep, files)
                    continue
                bl = blines[line - 1]
                if col < 0 or col > len(bl) + 1:
                    ctx.discrepancy("column-out-of-range:%s" % fam, "case %d `%s` %s:%d column %d but the line has %d bytes" % (case["idx"], cmd, fp, line, col, len(bl)), rep, files)
                text = bl.decode("utf-8", "replace")
                fx = case["facts"].get(fp, {})
                where = "case %d `%s` %s:%d %r message %r" % (case["idx"], cmd, fp, line, text.strip()[:80], msg[:100])
                # construct-on-line oracle
                if fx.get("kind") == "multiline":
                    ctx.count("construct_checked:multiline")
                    if fam == "nesting":
                        m = NEST_MSG.search(msg)
                        want = fx["headers"].get(m.group(1)) if m else None
                        if want != line:
                            ctx.discrepancy("not-header-line:nesting:multiline", where + " (def/fn line is %s)" % want, rep, files)
                    elif fam in fx["spans"]:
                        lo, hi = fx["spans"][fam]
                        if not lo <= line <= hi:
                            ctx.discrepancy("outside-construct-span:%s" % fam, where + " (construct spans lines %d-%d)" % (lo, hi), rep, files)
                    continue
                if fam == "nesting":
                    m = NEST_MSG.search(msg)
                    if m and m.group(1) in PLACEHOLDER_NAMES:
                        # a function without a name of its own is reported under a placeholder: nothing quoted from the source, the line must be the function's
                        if fx.get("kind") == "nesting" and line not in fx.get("anonymous_lines", []):
                            ctx.discrepancy("not-header-line:nesting", where + " (anonymous functions start at %s)" % fx.get("anonymous_lines"), rep, files)
                        ctx.count("construct_checked:nesting")
                        continue
                    if m and m.group(1) not in text:
                        ctx.discrepancy("name-not-on-line:nesting", where, rep, files)
                    if m and fx.get("kind") == "nesting" and fx["items"].get(m.group(1)) not in (None, line):
                        ctx.discrepancy("not-header-line:nesting", where + " (header is line %s)" % fx["items"].get(m.group(1)), rep, files)
                    ctx.count("construct_checked:nesting")
                elif fam == "srp" or fam == "stateless-class":
                    m = (SRP_MSG if fam == "srp" else STATELESS_MSG).search(msg)
                    if m and m.group(1) not in text:
                        ctx.discrepancy("name-not-on-line:%s" % fam, where, rep, files)
                    if m and fx.get("kind") == "class" and fx["items"].get(m.group(1)) is not None and line not in fx["items"][m.group(1)]:
                        ctx.discrepancy("not-header-line:%s" % fam, where + " (header is line %s)" % fx["items"].get(m.group(1)), rep, files)
                    ctx.count("construct_checked:" + fam)
                elif fam == "magic-numbers":
                    m = MAGIC_MSG.match(msg)
                    val = num(m.group(1)) if m else None
                    toks = [num(t.group(1)) for t in NUMTOK.finditer(text)]
                    if val is None or not any(t is not None and abs(t) == abs(val) for t in toks):
                        ctx.discrepancy("literal-not-on-line:magic-numbers", where + " (numeric tokens on the line: %r)" % toks, rep, files)
                    ctx.count("construct_checked:magic-numbers")
                elif fam in ("unwrap-abuse", "clone-abuse", "blocking-async"):
                    need = {"unwrap-abuse": (".unwrap()", ".expect("), "clone-abuse": (".clone()",), "blocking-async": ("fs::", "sleep(", "net::", "TcpStream::", "TcpListener::", "UdpSocket::")}[fam]
                    if not any(n in text for n in need):
                        ctx.discrepancy("call-not-on-line:%s" % fam, where, rep, files)
                    if fx.get("kind") == "rustcalls" and line not in {p[0] for p in fx["items"]}:
                        ctx.discrepancy("not-a-planted-call-line:%s" % fam, where, rep, files)
                    ctx.count("construct_checked:" + fam)
                elif fam == "file-header" and msg.startswith("Temporal language detected"):
                    q = re.search(r'"([^"]+)"', msg)
                    if q and q.group(1).lower() not in text.lower():
                        ctx.discrepancy("quoted-word-not-on-line:file-header", where, rep, files)
                    elif not q and "ISO date" in msg and not re.search(r"\d{4}-\d{2}-\d{2}", text):
                        ctx.discrepancy("quoted-word-not-on-line:file-header", where, rep, files)
                    ctx.count("construct_checked:file-header")
                elif fam == "improper-logging":
                    if "print(" not in text and "console." not in text:
                        ctx.discrepancy("call-not-on-line:improper-logging", where, rep, files)
                    ctx.count("construct_checked:improper-logging")
                elif fam == "method-property":
                    m = METHOD_MSG.search(msg)
                    if m and ("def " + m.group(1)) not in text:
                        ctx.discrepancy("name-not-on-line:method-property", where, rep, files)
                    ctx.count("construct_checked:method-property")
                elif fam == "collection-pipeline":
                    m = PIPE_MSG.search(msg)
                    if m and not ("for " in text and m.group(1) in text):
                        ctx.discrepancy("name-not-on-line:collection-pipeline", where, rep, files)
                    ctx.count("construct_checked:collection-pipeline")
                elif fam == "performance":
                    m = PERF_MSG.search(msg)
                    quoted = m.group(1).replace("()", "(") if m else ""
                    if quoted and quoted not in text:
                        ctx.discrepancy("quoted-text-not-on-line:performance", where, rep, files)
                    ctx.count("construct_checked:performance")
                elif fam == "dry" and msg.startswith("Duplicate constant"):
                    m = re.match(r"Duplicate constant '([^']+)'", msg)
                    if m and not re.search(r"\b%s\b" % re.escape(m.group(1)), text):
                        ctx.discrepancy("name-not-on-line:dry-constant", where, rep, files)
                    ctx.count("construct_checked:dry-constant")
                elif fam == "dry":
                    cm = "#" if fp.endswith(".py") else "//"
                    code = text.split(cm)[0].strip()
                    if not code:
                        ctx.discrepancy("blank-or-comment-line:dry", where, rep, files)
                    ctx.count("construct_checked:dry")
                elif fam == "lbyl":
                    if not text.strip().startswith("if "):
                        ctx.discrepancy("not-the-check-line:lbyl", where, rep, files)
                    ctx.count("construct_checked:lbyl")
                elif fam == "stringly-typed":
                    if not any(q in text for q in ('"', "'")):
                        ctx.discrepancy("no-string-on-line:stringly-typed", where, rep, files)
                    ctx.count("construct_checked:stringly-typed")
                elif fam == "lazy-ignores":
                    if "noqa" not in text and "ignore" not in text and "pylint" not in text and "nosec" not in text:
                        ctx.discrepancy("no-suppression-on-line:lazy-ignores", where, rep, files)
                    ctx.count("construct_checked:lazy-ignores")
    # the same location contract over every lint_file call the repository's own tests make (a workload we did not write)
    from .. import suite_mon
    sm = suite_mon.run()
    if sm.get("timeout") or not sm.get("mon"):
        ctx.inconclusive_if(True, "repository suite under the location contract did not finish: %s" % str(sm)[:200])
    else:
        ctx.count("suite_contract_evaluations", sm["mon"]["contract_evaluations"])
        ctx.inconclusive_if(sm["mon"]["contract_evaluations"] < 100, "the contract saw fewer than 100 lint_file calls during the repository suite")
        for fl in sm["mon"]["failures"]:
            ctx.discrepancy("suite-run:contract:%s:%s" % (fl[0], str(fl[1]).split(".")[0]), "during the repository's own tests Orchestrator.lint_file returned %r" % (fl,), {"suite_failure": fl}, {})
    c0 = cases[0]
    ctx.sample({"layout": c0["layout"], "commands": c0["cmds"], "files": sorted(c0["files"]), "facts": {k: (v if v["kind"] != "magic" else {"kind": "magic", "items": v["items"][:5]}) for k, v in c0["facts"].items()}})
    ctx.inconclusive_if(ctx.counters["violations_checked"] < 500, "fewer than 500 violations inspected")
    ctx.inconclusive_if(ctx.counters["contract_evaluations"] == 0, "icontract postcondition on Orchestrator.lint_file was never evaluated")
