"""C16 - SRP applies its method, size and keyword thresholds exactly.

Monitor: boundary trace of `thailint srp` on generated classes/structs with known (public methods, LOC, name).
Oracle: reported iff methods > max_methods or loc > max_loc or keyword (when on); message lists exactly the exceeded
criteria with the true counts; one violation per class, on the header line; language overrides apply to their language only.
"""
from __future__ import annotations

import json
import re
from collections import Counter

from .. import runner
from ..gen import classes, ctrl

MSG = re.compile(r"^Class '([^']+)' may violate SRP: (.*)$")
M_RE = re.compile(r"(\d+) methods \(max: (\d+)\)")
L_RE = re.compile(r"(\d+) lines \(max: (\d+)\)")
LANGS = ("py", "ts", "js", "rs")
LANGKEY = {"py": "python", "ts": "typescript", "js": "javascript", "rs": "rust"}


def make_case(rng, idx):
    M = rng.choice([3, 5, 7, 10])
    L = rng.choice([12, 20, 30, 50])
    over = {}
    for lang in LANGS:
        if rng.random() < 0.4:
            over[lang] = {"max_methods": max(1, M + rng.choice([-2, 2, 3])), "max_loc": max(5, L + rng.choice([-6, 5, 10]))}
            r = rng.random()
            if r < 0.25:
                del over[lang]["max_loc"]      # partial override: the other threshold falls back to the top-level value
            elif r < 0.5:
                del over[lang]["max_methods"]
    check_kw = rng.random() < 0.7
    custom_kw = rng.random() < 0.25
    files, facts = {}, {}
    for lang in LANGS:
        eff = dict({"max_methods": M, "max_loc": L}, **over.get(lang, {}))
        text, fx = classes.gen_file(rng, lang, idx, eff["max_methods"], eff["max_loc"], rng.randint(1, 4))
        f = "pkg/cls%d%s" % (idx, ctrl.EXT[lang])
        files[f] = text
        facts[f] = fx
    kws = ["Ledger", "Widget"] if custom_kw else None
    if not custom_kw and rng.random() < 0.3:
        kws = rng.choice([[], ["Manager"], ["Helper", "Ledger"]])  # an explicit list - empty, one of the default words, a mix - replaces the default list
    return {"idx": idx, "M": M, "L": L, "over": over, "check_kw": check_kw, "keywords": kws, "files": files, "facts": facts,
            "carrier": rng.choice(["yaml", "json"]), "hyphen_lang": False}


def config_of(case):
    sec = {"enabled": True, "max_methods": case["M"], "max_loc": case["L"], "check_keywords": case["check_kw"]}
    if case["keywords"] is not None:
        sec["keywords"] = case["keywords"]
    for lang, o in case["over"].items():
        sec[LANGKEY[lang]] = dict(o)
    return {"srp": sec}


def exec_case(case):
    bad = [f for f, t in case["files"].items() if not ctrl.syntax_ok(f.rsplit(".", 1)[1], t)]
    if bad:
        return {"generator_inconsistent": bad}
    d = runner.new_dir("s")
    cfg = config_of(case)
    if case["carrier"] == "json":
        extra = {".thailint.json": json.dumps(cfg)}
    else:
        import yaml  # PyYAML is a dependency of the tool; used only to *write* the config
        extra = {".thailint.yaml": yaml.safe_dump(cfg)}
    runner.write_tree(d, dict(case["files"], **extra))
    r = runner.cli(["srp", "--format", "json", "."], d)
    vs = r.violations()
    return {"exit": r.exit, "rows": None if vs is None else [[v["file_path"], v["line"], v["rule_id"], v["message"]] for v in vs],
            "err": r.err[-300:] if vs is None else "", "cfg": extra}


def run(ctx):
    ctx.rule = ("evaluations = srp runs + class verdicts; case = generated classes/structs (py/ts/js/rs) with member mixes and LOC padded around the limits x (max_methods, max_loc, check_keywords, "
                "keywords, per-language overrides); distinct non-trivial = (language, methods-vs-limit delta, loc-vs-limit delta, keyword hit, override present)")
    ctx.assumptions = ["ground truth from the renderer: public methods = regular/static/class/async; LOC = non-blank, non-comment lines from header to end",
                       "TS getters/setters, #private members, Rust trait impls, Rust non-pub methods without underscore, Python docstrings and decorated classes are not generated (documentation silent)",
                       "effective limits: language override, else top-level value"]
    rng = ctx.rng()
    cases = [make_case(rng, i) for i in range(ctx.size(400, 4000))]
    outs = runner.pmap(exec_case, cases, timeout=600)
    for case, o in zip(cases, outs):
        if not o.get("ok"):
            ctx.inconclusive_if(True, "case %d failed in harness: %s" % (case["idx"], str(o)[:300]))
            continue
        v = o["value"]
        if v.get("generator_inconsistent"):
            ctx.count("generator_inconsistent")
            continue
        ctx.evaluations += 1
        if v["rows"] is None or v["exit"] not in (0, 1):
            ctx.inconclusive_if(True, "case %d: srp run failed: exit %s %s" % (case["idx"], v["exit"], v["err"]))
            continue
        files = dict(case["files"], **v["cfg"])
        rep = {"argv": ["srp", "--format", "json", "."], "config": config_of(case)}
        kws = case["keywords"] if case["keywords"] is not None else classes.KEYWORDS
        for f, fx in case["facts"].items():
            lang = f.rsplit(".", 1)[1]
            eff = dict({"max_methods": case["M"], "max_loc": case["L"]}, **case["over"].get(lang, {}))
            rows = [r for r in v["rows"] if r[0] == f]
            by_name = {}
            for r in rows:
                m = MSG.match(r[3])
                if r[2] != "srp.violation" or not m:
                    ctx.discrepancy("unexpected-row:%s" % lang, "case %d: %r" % (case["idx"], r), rep, files)
                    continue
                by_name.setdefault(m.group(1), []).append((r[1], m.group(2)))
            for c in fx:
                ctx.evaluations += 1  # one verdict per generated class (the run itself was counted once above)
                ctx.count("classes:%s" % lang)
                kw_hit = case["check_kw"] and any(k.lower() in c["name"].lower() for k in kws)
                kw_exact = case["check_kw"] and any(k in c["name"] for k in kws)
                exp_m = c["methods"] > eff["max_methods"]
                exp_l = c["loc"] > eff["max_loc"]
                ctx.nontrivial([lang, max(-3, min(3, c["methods"] - eff["max_methods"])), max(-3, min(3, c["loc"] - eff["max_loc"])), bool(kw_exact), lang in case["over"]])
                got = [g for g in by_name.get(c["name"], []) if g[0] == c["line"] or sum(1 for c2 in fx if c2["name"] == c["name"]) == 1]
                stray = [g for g in by_name.get(c["name"], []) if all(g[0] != c2["line"] for c2 in fx if c2["name"] == c["name"])]
                if stray and sum(1 for c2 in fx if c2["name"] == c["name"]) > 1:
                    ctx.discrepancy("wrong-line:%s" % lang, "case %d %s: %s reported at line(s) %r, declared at %r" % (case["idx"], f, c["name"], [g[0] for g in stray], [c2["line"] for c2 in fx if c2["name"] == c["name"]]), rep, files)
                where = "case %d %s class %s (methods %d/max %d, loc %d/max %d, keyword %s)" % (
                    case["idx"], f, c["name"], c["methods"], eff["max_methods"], c["loc"], eff["max_loc"], kw_exact)
                if kw_hit != kw_exact:
                    ctx.count("not_judged_keyword_case")
                    continue
                expected = exp_m or exp_l or kw_exact
                if len(got) > 1:
                    ctx.discrepancy("duplicate:%s" % lang, "%s reported %d times" % (where, len(got)), rep, files)
                    continue
                # TS/JS LOC: documented 'excluding blank lines and comments'; the noise-free classes are judged strictly
                loc_ambiguous = False  # TS LOC is judged strictly since the fix recorded in KNOWN_FINDINGS.txt
                if not got:
                    if expected:
                        if loc_ambiguous and not exp_m and not kw_exact:
                            ctx.discrepancy("ts-loc:%s" % lang, "%s not reported" % where, rep, files)
                        else:
                            crit = "methods" if exp_m else "loc" if exp_l else "keyword"
                            ctx.discrepancy("missed:%s:%s" % (lang, crit), "%s not reported" % where, rep, files)
                    continue
                line, detail = got[0]
                mm, lm = M_RE.search(detail), L_RE.search(detail)
                said_kw = "responsibility keyword in name" in detail
                if loc_ambiguous:
                    span_loc = c.get("span")
                    # known deviation candidate: TS counts the full line span. Judge methods/keyword strictly, LOC via its own key.
                    if bool(lm) != exp_l or (lm and int(lm.group(1)) != c["loc"]):
                        if lm and span_loc and int(lm.group(1)) == span_loc:
                            ctx.discrepancy("ts-loc-counts-blank-and-comment-lines", "%s: message says %s lines = full span incl. blank/comment lines (documented: excluded)" % (where, lm.group(1)), rep, files)
                        else:
                            ctx.discrepancy("ts-loc:%s" % lang, "%s: LOC part %r" % (where, detail), rep, files)
                        lm_ok = True
                    if not expected and not (lm and not mm and not said_kw):
                        ctx.discrepancy("spurious:%s" % lang, "%s reported: %r" % (where, detail), rep, files)
                    if bool(mm) != exp_m or (mm and (int(mm.group(1)), int(mm.group(2))) != (c["methods"], eff["max_methods"])) or said_kw != kw_exact:
                        ctx.discrepancy("message:%s" % lang, "%s message %r" % (where, detail), rep, files)
                    continue
                if not expected:
                    ctx.discrepancy("spurious:%s" % lang, "%s reported: %r" % (where, detail), rep, files)
                    continue
                if line != c["line"]:
                    ctx.discrepancy("line:%s" % lang, "%s reported on line %s, header is line %d" % (where, line, c["line"]), rep, files)
                okm = (bool(mm) == exp_m) and (not mm or (int(mm.group(1)), int(mm.group(2))) == (c["methods"], eff["max_methods"]))
                okl = (bool(lm) == exp_l) and (not lm or (int(lm.group(1)), int(lm.group(2))) == (c["loc"], eff["max_loc"]))
                if not okm or not okl or said_kw != kw_exact:
                    part = "methods" if not okm else "loc" if not okl else "keyword"
                    ctx.discrepancy("message:%s:%s" % (lang, part), "%s message %r" % (where, detail), rep, files)
                ctx.count("violations_matched")
            extra = set(by_name) - {c["name"] for c in fx}
            if extra:
                ctx.discrepancy("unknown-class:%s" % lang, "case %d %s: reported classes %s do not exist" % (case["idx"], f, sorted(extra)), rep, files)
    c0 = cases[0]
    ctx.sample({"config": config_of(c0), "file": "pkg/cls0.py", "text_head": c0["files"]["pkg/cls0.py"][:500], "facts": c0["facts"]["pkg/cls0.py"]})
    ctx.inconclusive_if(ctx.counters["violations_matched"] < 50, "fewer than 50 reported classes matched")
