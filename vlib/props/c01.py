"""C01 - nesting: exactly the functions deeper than the limit, depth in message, +1 per wrapper,
same skeleton => same depth in every language.

Monitor: boundary trace of `thailint nesting` runs over generated skeletons with ground-truth depth.
Oracles: (a) exact flagged set / depth / line per limit; (b) wrap-deepest => depth + 1;
(c) verdict flips at exactly one limit (monotone in L); (d) cross-language equality.
"""
from __future__ import annotations

import json
import re

from .. import runner
from ..gen import ctrl

MSG = re.compile(r"Function '([^']+)' has excessive nesting depth \((\d+)\)")
LANGS = ("py", "ts", "js", "rs")
JSX_MARK = "\n// --- component with JSX ---\n"
LANGNAME = {"py": "python", "ts": "typescript", "js": "javascript", "rs": "rust"}


def make_skeleton(rng, idx: int, probes: bool = False) -> dict:
    """One project: shared functions (common kinds, all languages) + language-specific functions."""
    shared = []
    for i in range(rng.randint(1, 3)):
        style = rng.choice(["func", "func", "method", "arrow"])
        if rng.random() < 0.5:
            block = ctrl.gen_chain(rng, ctrl.kinds_for("py", True), rng.randint(0, 6))
        else:
            block = ctrl.gen_block(rng, ctrl.kinds_for("py", True), rng.randint(1, 5), [rng.randint(1, 10)])
        shared.append({"name": "sh%d_%d" % (idx, i), "style": style, "block": block})
        if rng.random() < 0.5:
            kind = rng.choice(sorted(ctrl.COMMON))
            nb = ctrl.COMMON[kind][1]
            shared.append({"name": "sh%d_%dw" % (idx, i), "style": style, "block": ctrl.wrap_deepest(block, kind, nb),
                           "wrap_of": "sh%d_%d" % (idx, i)})
    per = {}
    for lang in LANGS:
        fs = []
        for i in range(rng.randint(1, 3)):
            kinds = ctrl.kinds_for(lang)
            if probes:
                kinds = dict(kinds)
                kinds.update(ctrl.PROBE[lang])
            style = rng.choice(["func", "method"] + (["arrow", "fexpr", "generator"] if lang in ("ts", "js") else []))
            if rng.random() < 0.4:
                block = ctrl.gen_chain(rng, kinds, rng.randint(1, 7))
            else:
                block = ctrl.gen_block(rng, kinds, rng.randint(1, 6), [rng.randint(1, 12)])
            name = "%s%d_%d" % (lang, idx, i)
            used = ctrl.kinds_used(block)
            f = {"name": name, "style": style, "block": block}
            if rng.random() < 0.2 and style == "func":
                f["async"] = True
            if lang != "py" and f["style"] != "method" and rng.random() < 0.3:
                f["layout"] = rng.choice(["one-line", "pairs", "body-line"])  # several blocks per physical line: depth does not need height
            if lang == "py" and f["style"] == "func" and rng.random() < 0.35:
                f["placed"] = rng.choice(["else", "except", "finally", "case", "if", "with", "elif"])
            if used & {"asyncfor", "asyncwith", "asyncblock"}:
                f["async"] = True
                if lang == "rs":
                    f["style"] = "func"
            fs.append(f)
            if rng.random() < 0.4:
                kind = rng.choice(sorted(ctrl.kinds_for(lang)))
                nb = ctrl.kinds_for(lang)[kind][0]
                fs.append(dict(f, name=name + "w", block=ctrl.wrap_deepest(block, kind, nb), wrap_of=name))
        per[lang] = fs
    for f in shared + [f for fs in per.values() for f in fs]:
        f["block"] = ctrl.no_lone_if_in_else(f["block"])
    return {"idx": idx, "shared": shared, "per": per, "indent": rng.choice(["    ", "  ", "\t"]),
            "gap": rng.randint(0, 2), "carrier": rng.choice(["cli", "cli", "cli-over-file", "yaml", "json", "pyproject", "config-opt", "lang-override"])}


def render_project(sk: dict):
    files, facts = {}, {}
    for lang in LANGS:
        funcs = sk["shared"] + sk["per"][lang]
        indent = "    " if (lang == "py" and sk["indent"] == "\t" and False) else sk["indent"]
        text, fx = ctrl.render(lang, funcs, indent=indent, gap=sk["gap"], prefix="u%d" % sk["idx"])
        fname = "mod%d%s" % (sk["idx"], ctrl.EXT[lang])
        if lang == "js" and sk["idx"] % 3 == 0:
            # a React-style component at the end of the file: JSX is everyday JavaScript, and the functions above it are still functions
            text += JSX_MARK + "function View%d(props) {\n  return <ul className=\"list\">{props.items.map((i) => <li key={i}>{i}</li>)}</ul>;\n}\n" % sk["idx"]
        files[fname] = text
        facts[lang] = fx
    return files, facts


def exec_case(sk: dict) -> dict:
    files, facts = render_project(sk)
    bad = [f for f, t in files.items() if not ctrl.syntax_ok(f.rsplit(".", 1)[1], t.split(JSX_MARK)[0])]  # (the independent syntax check has no JSX grammar)
    if bad:
        return {"generator_inconsistent": bad}
    maxd = max(fx["depth"] for lang in facts for fx in facts[lang].values())
    limits = sk.get("limits") or list(range(1, maxd + 3))
    root = runner.new_dir("c")
    obs = {}
    runs = []
    for L in limits:
        extra = {}
        if sk["carrier"] == "yaml":
            extra[".thailint.yaml"] = "nesting:\n  enabled: true\n  max_nesting_depth: %d\n" % L
            argv = ["nesting", "--format", "json", "."]
        elif sk["carrier"] == "json":
            extra[".thailint.json"] = json.dumps({"nesting": {"enabled": True, "max_nesting_depth": L}})
            argv = ["nesting", "--format", "json", "."]
        elif sk["carrier"] == "pyproject":
            extra["pyproject.toml"] = "[project]\nname = \"p\"\nversion = \"0\"\n\n[tool.thailint.nesting]\nenabled = true\nmax_nesting_depth = %d\n" % L
            argv = ["nesting", "--format", "json", "."]
        elif sk["carrier"] == "config-opt":
            extra["limits.yaml"] = "nesting:\n  max_nesting_depth: %d\n" % L
            argv = ["nesting", "--config", "limits.yaml", "--format", "json", "."]
        elif sk["carrier"] == "lang-override":
            # every language gets its limit from its own override; the top-level value is a decoy
            extra[".thailint.yaml"] = "nesting:\n  max_nesting_depth: 99\n" + "".join("  %s:\n    max_nesting_depth: %d\n" % (lang, L) for lang in ("python", "typescript", "javascript", "rust"))
            argv = ["nesting", "--format", "json", "."]
        elif sk["carrier"] == "cli-over-file":
            # the command-line limit wins over whatever a configuration file says (top level and per language), for every value of the limit
            other = sk["idx"] % 5 + 2
            extra[".thailint.yaml"] = "nesting:\n  max_nesting_depth: %d\n  typescript:\n    max_nesting_depth: %d\n" % (other, other + 1)
            argv = ["nesting", "--max-depth", str(L), "--format", "json", "."]
        else:
            argv = ["nesting", "--max-depth", str(L), "--format", "json", "."]
        d = runner.new_dir("c")
        runner.write_tree(d, dict(files, **extra))
        res = runner.cli(argv, d)
        vs = res.violations()
        runs.append({"L": L, "argv": argv, "exit": res.exit, "n": None if vs is None else len(vs),
                     "swallowed": res["swallowed"], "err": res.err[-300:] if res.exit not in (0, 1) else ""})
        if vs is None:
            obs[str(L)] = None
            continue
        rows = []
        for v in vs:
            m = MSG.search(v.get("message", ""))
            rows.append([v.get("file_path"), v.get("rule_id"), v.get("line"), m.group(1) if m else None,
                         int(m.group(2)) if m else None, v.get("message")])
        obs[str(L)] = rows
    return {"facts": facts, "obs": obs, "runs": runs, "limits": limits, "files": files}


def analyse(ctx, sk, out):
    """Compare observed with ground truth; returns nothing, reports through ctx."""
    if out.get("generator_inconsistent"):
        ctx.count("generator_inconsistent")
        return
    facts, obs = out["facts"], out["obs"]
    files = out["files"]
    case_base = {"carrier": sk["carrier"], "idx": sk["idx"]}
    per_lang_depths = {}  # lang -> {name: observed depth at L=1 (or None)}
    for run in out["runs"]:
        ctx.evaluations += 1
        if run["exit"] not in (0, 1) or run["n"] is None:
            ctx.count("unexpected_exit")
            ctx.inconclusive_if(True, "nesting run ended with exit %s: %s" % (run["exit"], run["err"]))
            return
        if run["swallowed"]:
            ctx.count("swallowed_exceptions", len(run["swallowed"]))
    for lang in LANGS:
        fname = "mod%d%s" % (sk["idx"], ctrl.EXT[lang])
        fx = facts[lang]
        ctx.count("functions:" + lang, len(fx))
        for k in set(k for f in fx.values() for k in f["kinds"]):
            ctx.count("kind:%s:%s" % (lang, k))
        flagged_at = {n: [] for n in fx}
        seen_depth = {}
        offset_ok = {0: True, -1: True}
        details = []
        for L in out["limits"]:
            rows = [r for r in obs[str(L)] if r[0] == fname]
            got = sorted((r[3], r[2], r[4]) for r in rows)
            for r in rows:
                if r[1] != "nesting.excessive-depth" or r[3] is None:
                    ctx.discrepancy("unexpected-row", "%s L=%d unexpected violation %r" % (lang, L, r),
                                    dict(case_base, argv=["nesting", "--max-depth", str(L), "--format", "json", "."]), files)
                if r[3] in flagged_at:
                    flagged_at[r[3]].append(L)
                    seen_depth.setdefault(r[3], set()).add(r[4])
            for off in (0, -1):
                exp = sorted((n, f["line"], f["depth"] + off) for n, f in fx.items() if f["depth"] + off > L)
                if exp != got:
                    offset_ok[off] = False
                    if off == 0:
                        details.append((L, exp, got))
        nontriv = [n for n, f in fx.items() if f["depth"] >= 2]
        if nontriv:
            ctx.nontrivial([lang, sorted((f["depth"], f["style"], tuple(f["kinds"])) for f in fx.values())])
        if not offset_ok[0]:
            L, exp, got = details[0]
            case = dict(case_base, lang=lang, argv=["nesting", "--max-depth", str(L), "--format", "json", fname],
                        expected=exp, observed=got)
            probe_kinds = set(k for f in fx.values() for k in f["kinds"]) & set(ctrl.PROBE[lang])
            if lang == "py" and offset_ok[-1]:
                ctx.discrepancy("py-depth-offset", "Python functions are judged on documented depth - 1 "
                                "(e.g. %s: L=%d expected %s, got %s)" % (fname, L, exp[:2], got[:2]), case, files)
            elif probe_kinds:
                ctx.discrepancy("probe:%s:%s" % (lang, "+".join(sorted(probe_kinds))),
                                "%s L=%d expected %s got %s" % (fname, L, exp, got), case, files)
            else:
                ctx.discrepancy("flagged-set:%s" % lang, "%s L=%d expected (name,line,depth) %s got %s" % (fname, L, exp, got),
                                case, files)
        # (c) monotone verdict: flagged for a prefix of the limits, depth constant
        for n, Ls in flagged_at.items():
            k = len(Ls)
            if sorted(Ls) != list(out["limits"][:k]) or len(Ls) != len(set(Ls)):
                ctx.discrepancy("non-monotone:%s" % lang, "%s %s flagged at limits %s (not a prefix of %s)" % (fname, n, Ls, out["limits"]),
                                dict(case_base, lang=lang), files)
            if len(seen_depth.get(n, ())) > 1:
                ctx.discrepancy("depth-varies:%s" % lang, "%s %s reported with depths %s" % (fname, n, sorted(seen_depth[n])),
                                dict(case_base, lang=lang), files)
            ctx.count("flip_checked")
        # (b) wrapper relation on observed depths (independent of absolute ground truth)
        depth_obs = {n: (min(seen_depth[n]) if n in seen_depth else None) for n in fx}
        per_lang_depths[lang] = depth_obs
        for f in sk["shared"] + sk["per"][lang]:
            base = f.get("wrap_of")
            if not base:
                continue
            if depth_obs.get(base) is not None:
                ctx.count("wrap_relation_checked")
                if depth_obs.get(f["name"]) != depth_obs[base] + 1:
                    ctx.discrepancy("wrap-plus-one:%s" % lang, "%s: %s depth %s but wrapped twin %s depth %s" % (
                        fname, base, depth_obs[base], f["name"], depth_obs.get(f["name"])), dict(case_base, lang=lang), files)
    # (d) cross-language equality for shared functions
    for f in sk["shared"]:
        vals = {lang: per_lang_depths.get(lang, {}).get(f["name"]) for lang in LANGS}
        ctx.count("cross_language_checked")
        non_py = {vals[l] for l in ("ts", "js", "rs")}
        if len(non_py) > 1:
            ctx.discrepancy("cross-language", "shared skeleton %s: depths %s" % (f["name"], vals), case_base, files)
        elif vals["py"] != vals["ts"]:
            d = 1 + ctrl.block_depth(f["block"])
            t = vals["ts"]
            exp_py = (t - 1 if t is not None and t - 1 >= 2 else None) if t is not None else None
            if vals["py"] == exp_py or (t == 2 and vals["py"] is None):
                ctx.discrepancy("py-depth-offset", "shared skeleton %s (documented depth %d): python %s vs ts/js/rs %s" % (
                    f["name"], d, vals["py"], t), case_base, files)
            else:
                ctx.discrepancy("cross-language", "shared skeleton %s: depths %s" % (f["name"], vals), case_base, files)


PINNED = {
    # key -> (lang, function spec) : documented constructs whose handling deviates (see DESIGN section 5 #2)
}


def run(ctx):
    ctx.rule = ("cases = generated projects (shared + per-language control-flow skeletons in py/ts/js/rs) x limits 1..maxdepth+2; "
                "non-trivial & distinct = (language, multiset of (depth, style, construct kinds)) with some function of depth >= 2")
    ctx.assumptions = ["ground truth depth = 1 + structures enclosing the deepest plain statement, computed on the abstract tree",
                       "rendered files syntax-checked with CPython ast / bare tree-sitter, never with thai-lint analyzers",
                       "else-if chains in ts/js/rs, nested named functions and trait methods are not generated (documentation silent)"]
    rng = ctx.rng()
    n = ctx.size(120, 1500)
    sks = [make_skeleton(rng, i) for i in range(n)]
    outs = runner.pmap(exec_case, sks, timeout=600)
    for sk, o in zip(sks, outs):
        if not o.get("ok"):
            ctx.count("harness_case_failed")
            ctx.inconclusive_if(True, "case %d failed in harness: %s" % (sk["idx"], str(o)[:300]))
            continue
        analyse(ctx, sk, o["value"])
    if outs and outs[0].get("ok") and "facts" in outs[0]["value"]:
        v = outs[0]["value"]
        ctx.sample({"file": "mod0.rs", "text": v["files"]["mod0.rs"][:600], "facts": v["facts"]["rs"],
                    "observed_at_limit_1": [r for r in (v["obs"].get("1") or []) if r[0] == "mod0.rs"]})
    conformance(ctx, sks[:6])
    ctx.inconclusive_if(ctx.counters["flip_checked"] < 50, "fewer than 50 functions observed")
    ctx.inconclusive_if(ctx.counters["wrap_relation_checked"] < 10, "wrap relation observed on fewer than 10 pairs")


def conformance(ctx, sks):
    """Zygote vs real console script must agree byte-for-byte on a sample."""
    def one(sk):
        files, _ = render_project(sk)
        d = runner.new_dir("k")
        runner.write_tree(d, files)
        argv = ["nesting", "--max-depth", "2", "--format", "json", "."]
        a = runner.cli(argv, d)
        b = runner.cli_real(argv, d)
        return {"same": (a.exit, a.out) == (b.exit, b.out), "a": [a.exit, a.out[:200]], "b": [b.exit, b.out[:200], b.err[-300:]]}
    res = runner.pmap(one, sks)
    for r in res:
        ctx.count("conformance_runs")
        if not r.get("ok") or not r["value"]["same"]:
            ctx.inconclusive_if(True, "zygote and real CLI disagree: %s" % str(r)[:400])
