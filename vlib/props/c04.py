"""C04 - suppression directives silence exactly what they name, in every linter.

Monitor: boundary trace of base run B and variant run V (= same project with one directive inserted) for every cell of
the matrix (linter x language x directive form x rule-name spelling x placement). Oracle: a small scope model written
from the property text predicts V = B - S (lines below an inserted line shifted); everything else must be unchanged
(isolation is also observed through a second, unrelated command on the same project).
"""
from __future__ import annotations

import json
import re
from collections import Counter

from .. import runner
from ..gen import triggers

SUBJECT_EXCLUDED = {"lazy-ignores"}  # its subject is the suppression comments themselves
CM = {"py": "#", "ts": "//", "js": "//", "rs": "//"}
FORMS = ["same-line", "next-line", "block", "block2", "block-named-end", "block-bracket", "next-line-trailing", "same-line-under-foreign-next-line", "file@1", "file@5", "file@10", "file@11", "file@40", "thailintignore", "config-ignore", "linter-ignore"]
SPELLINGS = ["full", "prefix", "wildcard", "upper", "mixed-list", "mixed-list-spaced", "bare", "wildcard-upper", "wildcard-mixed-case", "prefix-mixed-case", "full-mixed-case",
             "bare-trailing-ws", "full-trailing-ws",  # (blanks / a tab after the directive, which an editor or a formatter may leave)
             "full-after-other-tool"]  # (the directive follows another tool's own ignore[...] comment on the same line)
NEG_SPELLINGS = ["other-rule", "other-prefix"]
SECTION = {"pipeline": "collection-pipeline", "perf": "performance", "string-concat-loop": "performance", "regex-in-loop": "performance",
           "print-statements": "print-statements", "improper-logging": "improper-logging"}
# linters whose documentation lists a per-linter `ignore` option (docs/configuration.md "Per-Linter Ignore Patterns" + docs/<linter>-linter.md)
LINTER_IGNORE_DOCUMENTED = {"magic-numbers", "nesting", "dry", "srp", "blocking-async", "clone-abuse", "unwrap-abuse", "pipeline", "file-header",
                            "improper-logging", "print-statements", "lbyl", "method-property", "stateless-class", "stringly-typed"}
ALIASES = {"improper-logging.print-statement": ["print-statements", "print-statements.detected", "print-statements.*"]}
MASK = re.compile(r":\d+(-\d+)?")


def model_matches(rule_id: str, name: str) -> bool:
    """Rule-name spellings from the property text: full id, linter prefix, prefix.*, alias, any case."""
    r, n = rule_id.lower(), name.lower()
    if n in ("*",):
        return True
    if n == r or r.startswith(n + "."):
        return True
    if n.endswith("*") and r.startswith(n[:-1]):
        return True
    return any(a.lower() == n for a in ALIASES.get(rule_id, []))


def spell(rule_id: str, kind: str):
    """-> list of rule names written inside the directive (None = bare directive)."""
    prefix = rule_id.split(".")[0]
    if kind == "full":
        return [rule_id]
    if kind == "prefix":
        return [prefix]
    if kind == "wildcard":
        return [prefix + ".*"]
    if kind == "upper":
        return [rule_id.upper()]
    if kind == "wildcard-upper":
        return [prefix.upper() + ".*"]
    if kind == "wildcard-mixed-case":
        return [prefix.title() + ".*"]
    if kind == "prefix-mixed-case":
        return [prefix.title()]
    if kind == "full-mixed-case":
        return [rule_id.title()]
    if kind == "mixed-list":
        return ["some-other.rule", rule_id]
    if kind == "mixed-list-spaced":
        # the list as most people type it: a blank after each comma, the rule in question not in first place
        return ["some-other.rule", " another.rule", " " + rule_id]
    if kind == "alias":
        return [ALIASES[rule_id][0]]
    if kind in ("bare", "bare-trailing-ws"):
        return None
    if kind in ("full-trailing-ws", "full-after-other-tool"):
        return [rule_id]
    if kind == "other-rule":
        return ["totally-different.rule"]
    if kind == "other-prefix":
        return ["nesting" if prefix != "nesting" else "srp"]
    raise ValueError(kind)


def directive(cm, form, names):
    if form in ("same-line", "next-line"):
        word = "ignore" if form == "same-line" else "ignore-next-line"
        return "%s thailint: %s%s" % (cm, word, "" if names is None else "[%s]" % ",".join(names))
    if form in ("block", "block2"):
        return "%s thailint: ignore-start%s" % (cm, "" if names is None else " " + " ".join(names)), "%s thailint: ignore-end" % cm
    if form == "block-named-end":  # the end marker repeats the rule name (docs/nesting-linter.md, srp-linter.md, dry-linter.md)
        tail = "" if names is None else " " + " ".join(names)
        return "%s thailint: ignore-start%s" % (cm, tail), "%s thailint: ignore-end%s" % (cm, tail)
    if form == "block-bracket":  # docs/stateless-class-linter.md writes both markers with brackets
        tail = "" if names is None else "[%s]" % ",".join(names)
        return "%s thailint: ignore-start%s" % (cm, tail), "%s thailint: ignore-end%s" % (cm, tail)
    if form.startswith("file@"):
        return "%s thailint: ignore-file%s" % (cm, "" if names is None else "[%s]" % ",".join(names))
    raise ValueError(form)


def apply(files, f, line, form, names, placement="on"):
    """-> (new files, shift(line)->line, scope predicate(line)->bool, all_rules: bool) for inline forms."""
    lang = f.rsplit(".", 1)[1]
    cm = CM[lang]
    lines = files[f].split("\n")
    out = dict(files)
    if form == "same-line":
        tgt = line if placement == "on" else line + 2
        if tgt > len(lines):
            return None
        lines[tgt - 1] = lines[tgt - 1] + "  " + directive(cm, form, names)
        out[f] = "\n".join(lines)
        return out, (lambda l: l), (lambda l: l == tgt)
    if form == "next-line":
        tgt = line if placement == "on" else max(1, line - 2)
        ind = re.match(r"\s*", lines[tgt - 1]).group(0)
        lines.insert(tgt - 1, ind + directive(cm, form, names))
        out[f] = "\n".join(lines)
        return out, (lambda l: l + 1 if l >= tgt else l), (lambda l: l == tgt)  # scope expressed in OLD line numbers
    if form == "next-line-trailing":
        # an ignore-next-line comment at the END of the target's own line: its scope is the following line, not this one
        if placement != "on" or line >= len(lines):
            return None
        lines[line - 1] = lines[line - 1] + "  " + directive(cm, "next-line", names)
        out[f] = "\n".join(lines)
        return out, (lambda l: l), (lambda l, t=line: l == t + 1)
    if form in ("block", "block-named-end", "block-bracket"):
        a, b = directive(cm, form, names)
        if placement == "on":
            s, e = line, line
        else:
            s, e = line + 1, line + 1
            if e > len(lines):
                return None
        ind = re.match(r"\s*", lines[s - 1]).group(0)
        lines.insert(e, ind + b)
        lines.insert(s - 1, ind + a)
        out[f] = "\n".join(lines)
        return out, (lambda l: l + 1 if s <= l <= e else (l + 2 if l > e else l)), (lambda l: s <= l <= e)
    if form == "same-line-under-foreign-next-line":
        # two directives about the same statement: an ignore-next-line naming some OTHER rule above it, the directive under test on the line itself
        if placement != "on":
            return None
        r1 = apply(files, f, line, "next-line", ["totally-different.rule"], "on")
        if r1 is None:
            return None
        f1, shift1, _ = r1
        r2 = apply(f1, f, shift1(line), "same-line", names, "on")
        if r2 is None:
            return None
        f2, _, _ = r2
        return f2, shift1, (lambda l, t=line: l == t)
    if form == "block2":
        # the target block is the SECOND properly closed block of the file: a first block for the same rule encloses a plain comment above
        a, b = directive(cm, "block", names)
        decoy = [a, "%s nothing to suppress in here" % cm, b]
        pre = dict(files)
        pre[f] = "\n".join(decoy + lines)
        res = apply(pre, f, line + 3, "block", names, placement)
        if res is None:
            return None
        out2, shift2, scope2 = res
        return out2, (lambda l: shift2(l + 3)), (lambda l: scope2(l + 3))
    if form.startswith("file@"):
        k = int(form.split("@")[1])
        while len(lines) < k:
            lines.append("")
        lines.insert(k - 1, directive(cm, form, names))
        out[f] = "\n".join(lines)
        return out, (lambda l: l + 1 if l >= k else l), (lambda l: k <= 10)
    raise ValueError(form)


DIRECTIVE_TEXT = re.compile(r"\s*(?://|#) (?:thailint|design-lint): ignore[^\n]*$")
DRY_NUM = re.compile(r"\d+")


def norm(vs):
    out = []
    for v in vs:
        msg = MASK.sub(":N", DIRECTIVE_TEXT.sub("", v["message"]))  # some messages quote the source line
        if v["rule_id"].startswith("dry."):
            msg = DRY_NUM.sub("N", msg.split(". Also found in")[0])
        out.append([v["rule_id"], v["file_path"], v["line"], v["column"], msg])
    return sorted(out)


def run_pair(arg):
    files, cmd, witness = arg
    d = runner.new_dir("i")
    runner.write_tree(d, files)
    out = {}
    for c in (cmd, witness):
        r = runner.cli([c, "--format", "json", "."], d)
        vs = r.violations()
        out[c] = {"exit": r.exit, "v": None if vs is None else norm(vs), "err": r.err[-200:] if vs is None else ""}
    return out


def project():
    files = triggers.files("q")
    # a second python module so that every python command has >= 3 target violations in one file
    files["src/appq.py"] = files["src/appq.py"] + '''

def show_more(items):
    print("again")
    print("and again")
    size = len(items) * 41
    other = size + 43
    return other * 47
'''
    files["src/webq.ts"] = files["src/webq.ts"] + '''
export function more(a: number): number {
  console.log("again");
  const size = a * 5341;
  return size + 5347;
}
'''
    files["src/coreq.rs"] = files["src/coreq.rs"] + '''
pub fn more(items: &[String], opt: Option<i32>) -> i32 {
    let first = opt.unwrap();
    let second = items.first().unwrap();
    for item in items {
        let dup = item.clone();
        consume(dup);
        consume(item);
    }
    first * 6421
}

pub async fn more_async(path: &str) {
    let a = std::fs::read_to_string(path);
    let b = std::fs::read(path);
    std::thread::sleep(std::time::Duration::from_millis(5));
}
'''
    files[".thailint.yaml"] = "dry:\n  enabled: true\n  min_duplicate_lines: 3\nfile-placement:\n  global_deny:\n    - pattern: \".*(thirdq|appq)\\\\.py$\"\n      reason: \"denied here\"\n"
    return files


def run(ctx):
    ctx.rule = ("cell = (linter command, language of the file, directive form, rule-name spelling, placement); each cell = base run + variant run of the command and of an "
                "unrelated witness command; distinct non-trivial = cells whose target violation exists in the base run")
    ctx.assumptions = ["scope model from the property text: same line / following line / between start and end markers / whole file when within the first ten lines / "
                       "whole file for repository-level patterns / that linter's findings for linter-level patterns",
                       "line numbers in messages are masked before comparison (they legitimately shift)", "lazy-ignores is not a subject (its subject is the suppression comments)"]
    rng = ctx.rng()
    matrix = Counter()
    run_flavour(ctx, rng, project(), "", matrix)
    run_flavour(ctx, rng, exotic(project()), ":exotic-line-separators", matrix)
    run_ignore_forms(ctx, rng)
    ctx.obs["matrix_cells_ok"] = sum(n for (t, s), n in matrix.items() if s == "ok")
    ctx.obs["matrix_cells_fail"] = sum(n for (t, s), n in matrix.items() if s == "fail")


# The pattern forms of docs/configuration.md "Ignore Patterns (All Linters)" (syntax table + Examples 1-4), each written for a file two directories deep.
# {stem} / {ext} are those of the target file backend/app/famous_tracks.<ext>; the last two forms target backend/tests/test_models.<ext> (Example 3: `tests/**`
# matches backend/tests/test_bar.py; Example 2: `**/test_*.py`).
IGNORE_FORMS = [("exact", "backend/app/famous_tracks{ext}", "famous"), ("recursive-name", "**/famous_tracks{ext}", "famous"), ("dir-tree", "backend/app/**", "famous"),
                ("top-dir-tree", "backend/**", "backend"), ("substring", "famous_tracks", "famous"), ("recursive-wildcard-name", "**/famous_*{ext}", "famous"),
                ("any-dir-tree", "**/app/**", "famous"), ("wildcard-name", "famous_*{ext}", "famous"),
                ("nested-dir-tree", "tests/**", "tests"), ("recursive-test-name", "**/test_*{ext}", "tests")]
IGNORE_LINTERS = sorted(LINTER_IGNORE_DOCUMENTED | {"perf"})  # (docs/performance-linter.md "Ignore Patterns" / "Config-Level Ignore")


def ignore_forms_job(arg):
    files, cmd, witness, sec, pats = arg
    out = {}
    for label, use in (("base", False), ("with", True)):
        fs = dict(files)
        # (the base run carries a list that matches nothing: a configured list replaces a linter's default list, e.g. tests/ for the Rust linters)
        cfg = json.loads(fs[".thailint.json"])
        cfg.setdefault(sec, {})["ignore"] = pats if use else ["nomatch_zzz/"]
        fs[".thailint.json"] = json.dumps(cfg)
        d = runner.new_dir("g")
        runner.write_tree(d, fs)
        res = {}
        for c in (cmd, witness):
            r = runner.cli([c, "--format", "json", "."], d)
            vs = r.violations()
            res[c] = None if vs is None or r.exit not in (0, 1) else norm(vs)
        out[label] = res
    return out


def run_ignore_forms(ctx, rng):
    """Linter-level ignore patterns in every documented form, for every linter that documents the option."""
    t = triggers.files("k")
    body = {".py": t["src/appk.py"], ".ts": t["src/webk.ts"], ".rs": t["src/corek.rs"]}
    files = {}
    for ext, text in body.items():
        for place in ("backend/app/famous_tracks", "backend/tests/test_models", "other/place/plain_file", "other/place/second_file"):
            files[place + ext] = text
    files[".thailint.json"] = json.dumps({"dry": {"enabled": True, "min_duplicate_lines": 3}})
    jobs, meta = [], []
    for c in IGNORE_LINTERS:
        sec = SECTION.get(c, c)
        w = "magic-numbers" if c != "magic-numbers" else "nesting"
        forms = IGNORE_FORMS if not ctx.quick else [IGNORE_FORMS[0]] + rng.sample(IGNORE_FORMS[1:], 5)
        for (form, pat, hit) in forms:
            pats = [pat.format(ext=e) for e in body] if "{ext}" in pat else [pat]
            jobs.append((files, c, w, sec, pats))
            meta.append((c, form, pats, hit))
    for (c, form, pats, hit), o in zip(meta, runner.pmap(ignore_forms_job, jobs, timeout=600)):
        if not o.get("ok") or any(o["value"][k][x] is None for k in ("base", "with") for x in o["value"][k]):
            ctx.inconclusive_if(True, "ignore-form job %s/%s failed: %s" % (c, form, str(o)[:300]))
            continue
        ctx.evaluations += 2
        w = "magic-numbers" if c != "magic-numbers" else "nesting"
        v = o["value"]
        inside = {"famous": lambda f: "famous_tracks" in f, "backend": lambda f: f.startswith("backend/"), "tests": lambda f: f.startswith("backend/tests/")}[hit]
        base_c, got_c = v["base"][c], v["with"][c]
        exp_c = [x for x in base_c if not inside(x[1])]
        ctx.count("ignore_form_cells")
        rep = {"argv": [c, "--format", "json", "."], "section": SECTION.get(c, c), "ignore": pats}
        shown = dict(files, **{".thailint.json": json.dumps(dict(json.loads(files[".thailint.json"]), **{SECTION.get(c, c): {"ignore": pats}}))})
        if any(inside(x[1]) for x in base_c):
            ctx.nontrivial(["linter-ignore-form", c, form])
        else:
            ctx.count("ignore_form_cells_without_target_finding")
            continue
        if c in ("dry", "stringly-typed"):
            # (what the OTHER occurrences say about the ignored file is not specified: judged on the files only)
            exp_files, got_files = sorted({x[1] for x in exp_c}), sorted({x[1] for x in got_c})
            bad = [f for f in got_files if inside(f)] or ([f for f in exp_files if f not in got_files] and ["lost:" + f for f in exp_files if f not in got_files])
            if bad:
                ctx.discrepancy("linter-ignore-form:%s:%s" % (form, c), "`%s` with %s.ignore = %r: %r" % (c, SECTION.get(c, c), pats, bad[:4]), rep, shown)
            continue
        if got_c != exp_c:
            still = [x for x in got_c if inside(x[1])]
            key = "linter-ignore-form:%s:%s" % (form, c) if still else "linter-ignore-form-collateral:%s:%s" % (form, c)
            ctx.discrepancy(key, "`%s` with %s.ignore = %r: %d finding(s) of the matching files remain (e.g. %r); %d other finding(s) changed" % (
                c, SECTION.get(c, c), pats, len(still), still[:1], len([x for x in got_c if x not in exp_c and not inside(x[1])]) + len([x for x in exp_c if x not in got_c])), rep, shown)
        if v["with"][w] != v["base"][w]:
            ctx.discrepancy("linter-ignore-form-witness:%s" % c, "%s.ignore = %r changed the findings of `%s`" % (SECTION.get(c, c), pats, w), rep, shown)


EXOTIC = "\x0c\x0b\x1c\x1d\x1e\x85\u2028"  # what str.splitlines() breaks on and the parsers (ast, tree-sitter) do not


def exotic(files):
    """The same project with a first comment line that ends in the characters only str.splitlines() treats as line breaks, and
    (Python, where a form feed is plain whitespace) a form-feed line between definitions."""
    out = dict(files)
    for f, text in files.items():
        ext = f.rsplit(".", 1)[-1]
        if ext in CM and isinstance(text, str):
            out[f] = "%s section %s\n" % (CM[ext], EXOTIC) + text
    return out


def run_flavour(ctx, rng, files, flavour, matrix):
    cmds = [c for c in triggers.CMDS if c not in SUBJECT_EXCLUDED]
    if flavour:
        cmds = [c for c in cmds if c not in ("file-header",)]  # the first line is the header linter's own subject
    base_jobs = [(files, c, "magic-numbers" if c != "magic-numbers" else "nesting") for c in cmds]
    base_out = runner.pmap(run_pair, base_jobs, timeout=600)
    base = {}
    for (f_, c, w), o in zip(base_jobs, base_out):
        if not o.get("ok") or o["value"][c]["v"] is None or o["value"][w]["v"] is None:
            ctx.inconclusive_if(True, "base run of %s failed: %s" % (c, str(o)[:300]))
            return
        base[c] = o["value"]
    cells = []
    for c in cmds:
        w = "magic-numbers" if c != "magic-numbers" else "nesting"
        bv = base[c][c]["v"]
        by_file = {}
        for v in bv:
            by_file.setdefault(v[1], []).append(v)
        for f, vs in sorted(by_file.items()):
            if f not in files or f.rsplit(".", 1)[-1] not in CM:
                continue
            lang = f.rsplit(".", 1)[1]
            targets = sorted(vs, key=lambda v: v[2])
            tv = targets[len(targets) // 2]
            forms = list(FORMS)
            if c == "file-placement":
                # the finding has no construct line (line 1 by convention): only same-line@1, file-level and pattern forms apply
                forms = [x for x in forms if x not in ("next-line", "block", "block2", "block-named-end", "block-bracket", "next-line-trailing", "same-line-under-foreign-next-line")]
            if c == "file-header":
                # header-sensitive: a comment inserted at the top of the file changes the header itself
                forms = [x for x in forms if x not in ("next-line", "block", "block2", "block-named-end", "block-bracket", "next-line-trailing", "same-line-under-foreign-next-line", "file@1")]
            if flavour:
                forms = [x for x in forms if x in ("same-line", "next-line", "block", "file@10", "file@11")]
            for form in forms:
                spellings = ["full"]
                if flavour:
                    pass
                elif not ctx.quick or rng.random() < 0.25:
                    spellings = SPELLINGS + (["alias"] if tv[0] in ALIASES else [])
                elif form == "same-line":
                    spellings = list(SPELLINGS) + (["alias"] if tv[0] in ALIASES else [])
                elif form == "file@1":
                    spellings = ["full", rng.choice(SPELLINGS[1:])]
                elif form in ("next-line", "next-line-trailing", "block"):
                    # the bare spelling is where a directive is told from its longer-named siblings by text alone: always drawn
                    spellings = ["full", "bare"]
                if form == "linter-ignore" and c not in LINTER_IGNORE_DOCUMENTED:
                    continue
                if form in ("thailintignore", "config-ignore", "linter-ignore"):
                    spellings = ["n/a"]
                for sp in spellings:
                    cells.append({"cmd": c, "witness": w, "file": f, "lang": lang, "target": tv, "form": form, "spelling": sp, "placement": "on"})
                if form in ("same-line", "next-line", "block", "block2", "block-named-end", "block-bracket", "next-line-trailing"):
                    cells.append({"cmd": c, "witness": w, "file": f, "lang": lang, "target": tv, "form": form, "spelling": "other-rule", "placement": "on"})
                    cells.append({"cmd": c, "witness": w, "file": f, "lang": lang, "target": tv, "form": form, "spelling": "full", "placement": "away"})
                    if not ctx.quick:
                        cells.append({"cmd": c, "witness": w, "file": f, "lang": lang, "target": tv, "form": form, "spelling": "other-prefix", "placement": "on"})
    jobs, meta = [], []
    for cell in cells:
        c, f, tv, form = cell["cmd"], cell["file"], cell["target"], cell["form"]
        rule_id, line = tv[0], tv[2]
        bv, bw = base[c][c]["v"], base[c][cell["witness"]]["v"]
        if form in ("thailintignore", "config-ignore", "linter-ignore"):
            nf = dict(files)
            pat = f
            if form == "thailintignore":
                nf[".thailintignore"] = pat + "\n"
                exp_c = [v for v in bv if v[1] != f]
                exp_w = [v for v in bw if v[1] != f]
            elif form == "config-ignore":
                nf[".thailint.yaml"] = files[".thailint.yaml"] + "ignore:\n  - \"%s\"\n" % pat
                exp_c = [v for v in bv if v[1] != f]
                exp_w = [v for v in bw if v[1] != f]
            else:
                sec = SECTION.get(c, c)
                y = files[".thailint.yaml"]
                if re.search(r"^%s:" % re.escape(sec), y, re.M):
                    y = re.sub(r"^(%s:\n)" % re.escape(sec), lambda m: m.group(1) + "  ignore:\n    - '%s'\n" % pat, y, flags=re.M)
                else:
                    y += "%s:\n  ignore:\n    - \"%s\"\n" % (sec, pat)
                nf[".thailint.yaml"] = y
                exp_c = [v for v in bv if v[1] != f]
                exp_w = list(bw)
        else:
            if cell["spelling"].startswith("wildcard") and "." not in rule_id:
                continue  # 'prefix.*' for a rule id without a dot: not a documented spelling
            names = spell(rule_id, cell["spelling"])
            res = apply(files, f, line, form, names, cell["placement"])
            if res is None:
                continue
            nf, shift, in_scope = res
            if cell["spelling"] == "full-after-other-tool":
                if form != "same-line":
                    continue
                other = "# type: ignore[arg-type]" if cell["lang"] == "py" else "// other-tool: ignore[some-check]"
                nf = dict(nf)
                nf[f] = "\n".join(re.sub(r"(\s*)((?://|#) (?:thailint|design-lint): ignore\[)", lambda m: "  " + other + "  " + m.group(2), ln, count=1) if in_scope(i) or True else ln
                                   for i, ln in enumerate(nf[f].split("\n"), 1))
            if cell["spelling"].endswith("-trailing-ws"):
                nf = dict(nf)
                nf[f] = "\n".join((ln + "  \t" if re.search(r"(?:thailint|design-lint): ignore[^\n]*$", ln) else ln) for ln in nf[f].split("\n"))

            def expected(rows, names=names, in_scope=in_scope, shift=shift, f=f):
                out = []
                for v in rows:
                    if v[1] == f and in_scope(v[2]) and (names is None or any(model_matches(v[0], n.strip()) for n in names)):
                        continue
                    # file-placement findings carry line 1 by convention and never shift
                    out.append([v[0], v[1], shift(v[2]) if v[1] == f and not v[0].startswith("file-placement") else v[2], v[3], v[4]])
                return sorted(out)
            exp_c, exp_w = expected(bv), expected(bw)
        jobs.append((nf, c, cell["witness"]))
        meta.append((cell, exp_c, exp_w, nf))
    outs = runner.pmap(run_pair, jobs, timeout=900)
    for (cell, exp_c, exp_w, nf), o in zip(meta, outs):
        ctx.evaluations += 2
        c, w = cell["cmd"], cell["witness"]
        rep = {"cell": {k: cell[k] for k in ("cmd", "file", "form", "spelling", "placement")}, "target": cell["target"],
               "runs": [{"argv": [c, "--format", "json", "."]}, {"argv": [w, "--format", "json", "."]}]}
        if not o.get("ok") or o["value"][c]["v"] is None or o["value"][w]["v"] is None:
            ctx.discrepancy("run-error:%s" % c, "variant run failed: %s" % str(o)[:300], rep, nf)
            continue
        ctx.nontrivial([c, cell["lang"], cell["form"], cell["spelling"], cell["placement"], flavour])
        negative = cell["spelling"] in NEG_SPELLINGS or cell["placement"] == "away"
        tag = "%s:%s:%s%s" % (c, cell["lang"], cell["form"], flavour)
        ctx.count("cells")
        got_c, got_w = o["value"][c]["v"], o["value"][w]["v"]
        if c in ("dry", "stringly-typed"):
            # cross-file rules: partners in other files legitimately change when one place is suppressed
            exp_c = [v for v in exp_c if v[1] == cell["file"]]
            got_c = [v for v in got_c if v[1] == cell["file"]]
            if c == "dry":
                exp_c = [v[:4] + [""] for v in exp_c]
                got_c = [v[:4] + [""] for v in got_c]
        a, b = Counter(map(tuple, exp_c)), Counter(map(tuple, got_c))
        ok = True
        if a != b:
            ok = False
            survived, vanished = list((b - a).elements()), list((a - b).elements())
            if negative:
                key = "collateral:%s%s" % (tag, ":placed-away" if cell["placement"] == "away" else ":other-rule")
            elif survived and not vanished:
                key = "not-suppressed:%s" % tag
                if cell["spelling"] not in ("full", "n/a"):
                    key += ":" + cell["spelling"]
            elif vanished and not survived:
                key = "over-suppressed:%s" % tag
            else:
                key = "differs:%s" % tag
            ctx.discrepancy(key, "%s %s spelling=%s placement=%s on %s (target %s line %d): still reported %r; unexpectedly gone %r" % (
                c, cell["form"], cell["spelling"], cell["placement"], cell["file"], cell["target"][0], cell["target"][2], survived[:2], vanished[:2]),
                dict(rep, expected=exp_c[:6], observed=got_c[:6]), nf)
        a, b = Counter(map(tuple, exp_w)), Counter(map(tuple, got_w))
        if a != b:
            ok = False
            ctx.discrepancy("witness-changed:%s:%s:%s%s" % (w, cell["lang"], cell["form"], flavour) + (":bare" if cell["spelling"].startswith("bare") else ""),
                            "directive for %s (%s, spelling=%s) on %s changed the unrelated `%s`: gone %r new %r" % (
                                c, cell["form"], cell["spelling"], cell["file"], w, list((a - b).elements())[:2], list((b - a).elements())[:2]), rep, nf)
        matrix[(tag, "ok" if ok else "fail")] += 1
    ctx.obs["commands"] = cmds
    ctx.sample({"cell": {k: cells[0][k] for k in ("cmd", "file", "form", "spelling", "placement")}, "target_violation": cells[0]["target"]})
    ctx.inconclusive_if(ctx.counters["cells"] < 200, "fewer than 200 matrix cells exercised")
