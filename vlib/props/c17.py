"""C17 - Rust safety linters flag exactly the risky calls outside test code.

Monitor: boundary trace of `thailint unwrap-abuse|clone-abuse|blocking-async` on generated Rust files with planted
calls whose kind, line and context (test / async / loop / wrapper) are known by construction.
Oracle: exact multiset of (rule id, line) per configuration (allow_in_tests, allow_expect, detect_*).
"""
from __future__ import annotations

import json
import re
from collections import Counter

from .. import runner
from ..gen import ctrl

# header comments end in non-ASCII text: from there on byte offsets and character offsets differ (Latin-1 supplement, Thai, CJK, astral plane)
NON_ASCII = " \u2014 g\u00e9n\u00e9r\u00e9 \u0e2a\u0e23\u0e49\u0e32\u0e07 \u751f\u6210 \U0001f600"

CMDS = ("unwrap-abuse", "clone-abuse", "blocking-async")
FS_FUNCS = ["read_to_string", "read", "write", "create_dir", "create_dir_all", "remove_file", "remove_dir", "rename", "copy", "metadata", "read_dir"]


class B:
    def __init__(self):
        self.lines = []
        self.planted = []  # {"line", "kind", "test": bool, "async": bool}

    def add(self, text, kind=None, **ctx):
        self.lines.append(text)
        if kind:
            self.planted.append(dict(line=len(self.lines), kind=kind, **ctx))


def body(rng, b: B, ind: str, is_test: bool, is_async: bool, n: list):
    """Emit 2-7 planted statements; every planted call sits on its own line."""
    for _ in range(rng.randint(2, 7)):
        n[0] += 1
        k = n[0]
        r = rng.random()
        c = {"test": is_test, "async": is_async}
        if r < 0.12:
            b.add("%slet v%d = opt_%d.unwrap();" % (ind, k, k), "unwrap", **c)
        elif r < 0.2:
            b.add("%slet v%d = res_%d.expect(\"value %d present\");" % (ind, k, k, k), "expect", **c)
        elif r < 0.24:
            b.add("%slet v%d = cfg_%d.get(\"k\").map(|x| x.len()).unwrap();" % (ind, k, k), "unwrap", **c)
        elif r < 0.3:
            b.add(rng.choice([
                "%slet v%d = opt_%d.unwrap_or(0);", "%slet v%d = opt_%d.unwrap_or_default();", "%slet v%d = unwrap(opt_%d);",
                "%slet v%d = opt_%d.unwrap_or_else(|| 0);", "%slet v%d = opt_%d.expect_err(\"e\");"]) % (ind, k, k))
        elif r < 0.33:
            b.add("%slet s%d = \"call .unwrap() and .clone() and std::fs::read here\"; // x.unwrap() y.clone()" % (ind, k))
        elif r < 0.42:
            loop = rng.choice(["for it_%d in items_%d.iter() {", "while cond_%d(it_%d) {", "loop {"])
            b.add(ind + (loop % (k, k) if "%d" in loop else loop))
            b.add("%s    let c%d = it_%d.clone();" % (ind, k, k), "clone-loop", **c)
            b.add("%s    consume(c%d);" % (ind, k))
            b.add("%s    consume(it_%d);" % (ind, k))
            if loop == "loop {":
                b.add("%s    break;" % ind)
            b.add("%s}" % ind)
        elif r < 0.48:
            b.add("%slet c%d = src_%d.clone().clone();" % (ind, k, k), "clone-chain", **c)
            b.add("%sconsume(src_%d);" % (ind, k))
        elif r < 0.55:
            b.add("%slet src_%d = make_%d();" % (ind, k, k))
            b.add("%slet c%d = src_%d.clone();" % (ind, k, k), "clone-unnecessary", **c)
            b.add("%sconsume(c%d);" % (ind, k))
        elif r < 0.61:
            if rng.random() < 0.4:
                # the source is used afterwards - as the bare tail expression of the block (its value), not inside a statement
                b.add("%slet keep_%d = {" % (ind, k))
                b.add("%s    let src_%d = make_%d();" % (ind, k, k))
                b.add("%s    let c%d = src_%d.clone();" % (ind, k, k))
                b.add("%s    consume(c%d);" % (ind, k))
                b.add("%s    src_%d" % (ind, k))
                b.add("%s};" % ind)
                b.add("%sconsume(keep_%d);" % (ind, k))
            elif rng.random() < 0.3:
                # the source is used afterwards - as an inline format argument ({name} inside the format string)
                b.add("%slet src_%d = make_%d();" % (ind, k, k))
                b.add("%slet c%d = src_%d.clone();" % (ind, k, k))
                b.add("%sprintln!(\"{src_%d}\");" % (ind, k))
                b.add("%sconsume(c%d);" % (ind, k))
            else:
                b.add("%slet src_%d = make_%d();" % (ind, k, k))
                b.add("%slet c%d = src_%d.clone();" % (ind, k, k))
                b.add("%sconsume(c%d);" % (ind, k))
                b.add("%sconsume(src_%d);" % (ind, k))
        elif r < 0.7 and rng.random() < 0.45:
            # the risky call as a sub-expression: an argument, a condition, a scrutinee, a tuple member - and, in async code, lexically inside an
            # awaited expression (argument of an awaited call, head of a chain that ends in .await, async block handed to an awaited spawn)
            forms = [("%slet e%d = helper_%d(std::fs::read(\"emb_%d\"));", "fs"), ("%sif std::fs::metadata(\"emb_%d\").is_ok() { consume(flag_%d); }", "fs"),
                     ("%slet e%d = (std::fs::read_to_string(\"emb_%d\"), %d);", "fs"), ("%smatch fs::read(\"emb_%d\") { Ok(_) => consume(ok_%d), Err(_) => consume(err_%d) }", "fs"),
                     ("%slet e%d = helper_%d(opt_%d.unwrap());", "unwrap"), ("%sif res_%d.expect(\"emb\") > %d { consume(flag_%d); }", "expect")]
            if is_async:
                forms += [("%slet e%d = tokio::fs::write(\"dst_%d\", std::fs::read(\"emb_%d\").unwrap_or_default()).await;", "fs"),
                          ("%slet e%d = client_%d.post(std::fs::read_to_string(\"emb_%d\").unwrap_or_default()).send().await;", "fs"),
                          ("%slet e%d = async_helper_%d(std::net::TcpStream::connect(\"emb_%d:80\")).await;", "net"),
                          ("%slet e%d = tokio::spawn(async move { std::thread::sleep(dur_%d) }).await;", "sleep"),
                          ("%slet e%d = async_helper_%d(opt_%d.unwrap()).await;", "unwrap"),
                          ("%slet e%d = tokio::time::timeout(limit_%d, async { thread::sleep(dur_%d) }).await;", "sleep")]
            form, kind = rng.choice(forms)
            b.add(form % ((ind,) + (k,) * (form.count("%d"))), kind, **c)
        elif r < 0.7:
            pre = rng.choice(["std::fs::", "fs::"])
            # (a call may carry explicit type arguments: std::fs::read::<&str>("p"))
            b.add("%slet f%d = %s%s%s(\"path_%d\");" % (ind, k, pre, rng.choice(FS_FUNCS), rng.choice(["", "", "::<&str>"]), k), "fs", **c)
        elif r < 0.76:
            pre = rng.choice(["std::thread::", "thread::"])
            b.add("%s%ssleep(dur_%d);" % (ind, pre, k), "sleep", **c)
        elif r < 0.82:
            pre = rng.choice(["std::net::", "net::", ""])  # "" = the type brought in with `use std::net::TcpStream;`
            call = rng.choice(["TcpStream::connect", "TcpListener::bind", "UdpSocket::bind"])
            b.add("%slet n%d = %s%s(\"host_%d:80\");" % (ind, k, pre, call, k), "net", **c)
        elif r < 0.88:
            b.add(rng.choice([
                "%slet t%d = tokio::fs::read_to_string(\"p_%d\").await;", "%slet t%d = tokio::net::TcpStream::connect(\"h_%d:1\").await;",
                "%slet t%d = async_std::fs::read(\"p_%d\").await;", "%slet t%d = fs::read_to_string(\"p_%d\").await;",
                "%slet t%d = TcpStream::connect(\"h_%d:1\").await;",
                # the async twins NOT awaited on the spot (the future is stored, joined or raced later): still not std
                "%slet fut%d = tokio::net::TcpStream::connect(\"h_%d:1\");", "%slet fut%d = async_std::net::TcpListener::bind(\"h_%d:1\");",
                "%slet fut%d = crate::net::UdpSocket::bind(\"h_%d:1\");", "%slet fut%d = tokio::fs::read_to_string(\"p_%d\");",
                "%slet fut%d = tokio::time::sleep(dur_%d);", "%slet fut%d = tokio::time::timeout(limit, tokio::net::TcpStream::connect(\"h_%d:1\"));"]) % (ind, k, k)
                  if is_async else "%slet t%d = helper_%d();" % (ind, k, k))
        elif r < 0.94:
            wrapper = rng.choice(["tokio::task::spawn_blocking", "spawn_blocking", "tokio::task::block_in_place", "block_in_place"])
            b.add("%slet w%d = %s(|| {" % (ind, k, wrapper))
            b.add("%s    std::fs::read_to_string(\"wrapped_%d\")" % (ind, k), "fs-wrapped", **c)
            b.add("%s});" % ind)
        elif r < 0.97 and len(ind) <= 8:
            # nested function item: an async fn is an async context of its own, wherever it is declared
            inner_async = True if is_async else rng.random() < 0.5   # (a sync fn nested in an async fn is not generated: documentation silent)
            b.add("%s%sfn nested_%d(opt_n: Option<i32>) {" % (ind, "async " if inner_async else "", k))
            body(rng, b, ind + "    ", is_test, inner_async, n)
            b.add("%s}" % ind)
        elif r < 0.985:
            # the same calls written inside the arguments of a macro invocation (println!, vec!, assert!, format!)
            m = rng.choice(["unwrap", "unwrap", "expect", "fs", "clone-loop"])
            if m == "unwrap":
                b.add(rng.choice(["%sprintln!(\"{}\", opt_%d.unwrap());", "%slet mv%d = vec![opt_%d.unwrap()];", "%sassert!(opt_%d.unwrap() > 0);"]).replace("mv%d", "mv%d" % k) % (ind, k),
                      "unwrap", macro=True, **c)
            elif m == "expect":
                b.add("%slet ms%d = format!(\"{}\", res_%d.expect(\"value present\"));" % (ind, k, k), "expect", macro=True, **c)
            elif m == "fs":
                b.add("%sprintln!(\"{:?}\", std::fs::read(\"path_%d\"));" % (ind, k), "fs", macro=True, **c)
            else:
                b.add("%sfor it_%d in items_%d.iter() {" % (ind, k, k))
                b.add("%s    println!(\"{}\", it_%d.clone());" % (ind, k), "clone-loop", macro=True, **c)
                b.add("%s    consume(it_%d);" % (ind, k))
                b.add("%s}" % ind)
        else:
            b.add("%sconsume(plain_%d);" % (ind, k))


def gen_file(rng, idx):
    b = B()
    n = [idx * 1000]
    b.add("// Generated module %d%s" % (idx, NON_ASCII))
    b.add("use std::fs;")
    b.add("use std::thread;")
    b.add("use std::net;")
    b.add("")
    nf = [0]

    def fn(ind, in_test_mod):
        nf[0] += 1
        r = rng.random()
        is_async = rng.random() < 0.45
        test_attr = None
        if r < 0.3:
            test_attr = "#[tokio::test]" if is_async else "#[test]"
        attrs = []
        if rng.random() < 0.3:
            attrs.append(rng.choice(["#[inline]", "#[allow(dead_code)]", "#[allow(unused_variables)]", "#[must_use]"]))
        if not test_attr and rng.random() < 0.2:
            # attributes that merely contain the letters "test": production code
            attrs.append(rng.choice(["#[cfg(not(test))]", "#[cfg(feature = \"latest\")]", "#[cfg(not( test ))]", "#[doc = \"not a test\"]",
                                     "#[cfg(not(any(test, feature = \"mock\")))]", "#[cfg(all(not(test), unix))]", "#[cfg_attr(test, allow(dead_code))]"]))
        if test_attr:
            attrs.insert(rng.randint(0, len(attrs)), test_attr)
        for a in attrs:
            b.add(ind + a)
        if attrs and rng.random() < 0.3:
            b.add(ind + rng.choice(["/// documented item", "// plain comment", "/* block comment */"]))
        is_test = bool(test_attr) or in_test_mod
        b.add("%s%sfn func_%d_%d(items_x: Vec<String>, opt_x: Option<i32>) {" % (ind, "async " if is_async else "", idx, nf[0]))
        body(rng, b, ind + "    ", is_test, is_async, n)
        b.add("%s}" % ind)
        b.add("")

    for _ in range(rng.randint(2, 5)):
        fn("", False)
    if rng.random() < 0.6:
        b.add("pub struct Holder%d;" % idx)
        b.add("")
        b.add("impl Holder%d {" % idx)
        nf[0] += 1
        is_async = rng.random() < 0.5
        b.add("    pub %sfn method_%d(&self, opt_x: Option<i32>) {" % ("async " if is_async else "", nf[0]))
        body(rng, b, "        ", False, is_async, n)
        b.add("    }")
        b.add("}")
        b.add("")
    if rng.random() < 0.7:
        b.add("#[cfg(test)]")
        b.add("mod checks_%d {" % idx)
        b.add("    use super::*;")
        b.add("")
        for _ in range(rng.randint(1, 2)):
            fn("    ", True)
        if rng.random() < 0.5:
            b.add("    mod deeper {")
            fn("        ", True)
            b.add("    }")
        b.add("}")
        b.add("")
    if rng.random() < 0.5:
        b.add("mod plain_%d {" % idx)
        fn("    ", False)
        b.add("}")
    return "\n".join(b.lines) + "\n", b.planted


def expected(planted, cmd, cfg):
    exp = Counter()
    for p in planted:
        skip_test = p["test"] and cfg.get("allow_in_tests", True)
        k = p["kind"]
        if cmd == "unwrap-abuse":
            if skip_test:
                continue
            if k == "unwrap":
                exp[("unwrap-abuse.unwrap-call", p["line"])] += 1
            elif k == "expect" and not cfg.get("allow_expect", True):
                exp[("unwrap-abuse.expect-call", p["line"])] += 1
        elif cmd == "clone-abuse":
            if skip_test:
                continue
            if k == "clone-loop" and cfg.get("detect_clone_in_loop", True):
                exp[("clone-abuse.clone-in-loop", p["line"])] += 1
            elif k == "clone-chain" and cfg.get("detect_clone_chain", True):
                exp[("clone-abuse.clone-chain", p["line"])] += 1
            elif k == "clone-unnecessary" and cfg.get("detect_unnecessary_clone", True):
                exp[("clone-abuse.unnecessary-clone", p["line"])] += 1
        else:
            if skip_test or not p["async"]:
                continue
            if k == "fs" and cfg.get("detect_fs_in_async", True):
                exp[("blocking-async.fs-in-async", p["line"])] += 1
            elif k == "sleep" and cfg.get("detect_sleep_in_async", True):
                exp[("blocking-async.sleep-in-async", p["line"])] += 1
            elif k == "net" and cfg.get("detect_net_in_async", True):
                exp[("blocking-async.net-in-async", p["line"])] += 1
    return exp


OPTIONS = {
    "unwrap-abuse": ["allow_in_tests", "allow_expect"],
    "clone-abuse": ["allow_in_tests", "detect_clone_in_loop", "detect_clone_chain", "detect_unnecessary_clone"],
    "blocking-async": ["allow_in_tests", "detect_fs_in_async", "detect_sleep_in_async", "detect_net_in_async"],
}


def make_case(rng, idx):
    text, planted = gen_file(rng, idx)
    style = rng.choice(["tight", "tight", "tight", "spaced"])
    if style == "spaced":
        # rustfmt-less spelling of every macro invocation in the file: blanks between the bang and the delimiter (same lines, same calls)
        text = re.sub(r"(\b[A-Za-z_][A-Za-z0-9_]*)!([(\[{])", lambda m: m.group(1) + "! " + m.group(2), text)
    cfgs = [{c: {} for c in CMDS}]
    for _ in range(2):
        cfgs.append({c: {o: rng.random() < 0.5 for o in OPTIONS[c] if rng.random() < 0.8} for c in CMDS})
    return {"idx": idx, "text": text, "planted": planted, "cfgs": cfgs, "carrier": rng.choice(["yaml", "json"]), "underscore": rng.random() < 0.5}


def cfg_file(case, cfg):
    doc = {}
    for c, sec in cfg.items():
        if sec or True:
            doc[c.replace("-", "_") if case["underscore"] else c] = dict(sec, enabled=True)
    if case["carrier"] == "json":
        return {".thailint.json": json.dumps(doc)}
    import yaml
    return {".thailint.yaml": yaml.safe_dump(doc)}


def exec_case(case):
    f = "pkg/mod%d.rs" % case["idx"]
    if not ctrl.syntax_ok("rs", case["text"]):
        return {"generator_inconsistent": True}
    out = []
    for cfg in case["cfgs"]:
        d = runner.new_dir("r")
        runner.write_tree(d, dict({f: case["text"]}, **cfg_file(case, cfg)))
        res = {}
        for cmd in CMDS:
            r = runner.cli([cmd, "--format", "json", "."], d)
            vs = r.violations()
            res[cmd] = {"exit": r.exit, "rows": None if vs is None else [[v["rule_id"], v["line"], v["column"], v["file_path"]] for v in vs], "err": r.err[-300:] if vs is None else ""}
        out.append(res)
    return {"runs": out}


def run(ctx):
    ctx.rule = ("case = generated Rust file (sync/async fns, impl methods, #[test]/#[tokio::test] with other attributes, #[cfg(test)] and plain modules, nested) with "
                "planted unwrap/expect/clone/blocking calls and look-alikes x option settings; distinct non-trivial = (command, option setting, multiset of planted (kind, test, async))")
    ctx.assumptions = ["one planted call per line; clone statements are built to fall into exactly one documented category",
                       "'used afterwards' = identifier appears in a later statement of the same block", "attribute scan interrupted by doc comments, #[cfg(not(test))], bare net types after `use`, "
                       "std::fs::File::open and async blocks in sync functions are not generated in the strict oracle (documentation silent / separate probes)"]
    rng = ctx.rng()
    cases = [make_case(rng, i) for i in range(ctx.size(150, 2000))]
    outs = runner.pmap(exec_case, cases, timeout=600)
    for case, o in zip(cases, outs):
        if not o.get("ok"):
            ctx.inconclusive_if(True, "case %d failed in harness: %s" % (case["idx"], str(o)[:300]))
            continue
        v = o["value"]
        if v.get("generator_inconsistent"):
            ctx.count("generator_inconsistent")
            continue
        f = "pkg/mod%d.rs" % case["idx"]
        lines = case["text"].split("\n")
        for cfg, res in zip(case["cfgs"], v["runs"]):
            for cmd in CMDS:
                ctx.evaluations += 1
                r = res[cmd]
                files = dict({f: case["text"]}, **cfg_file(case, cfg))
                rep = {"argv": [cmd, "--format", "json", "."], "config": cfg[cmd]}
                if r["rows"] is None or r["exit"] not in (0, 1):
                    ctx.inconclusive_if(True, "case %d %s failed: exit %s %s" % (case["idx"], cmd, r["exit"], r["err"]))
                    continue
                got = Counter((row[0], row[1]) for row in r["rows"])
                exp = expected(case["planted"], cmd, cfg[cmd])
                ctx.count("expected:" + cmd, sum(exp.values()))
                for p in case["planted"]:
                    ctx.count("planted:%s:%s%s" % (p["kind"], "test" if p["test"] else "prod", ":async" if p["async"] else ""))
                if exp:
                    ctx.nontrivial([cmd, sorted(cfg[cmd].items()), sorted(Counter((p["kind"], p["test"], p["async"]) for p in case["planted"]).items())])
                if got != exp:
                    for k in list((exp - got).elements())[:4]:
                        p = [p for p in case["planted"] if p["line"] == k[1]][0]
                        opt = ",".join("%s=%s" % kv for kv in sorted(cfg[cmd].items()) if kv[1] is not True) or "defaults"
                        key = "missed:%s:%s:%s" % (k[0], "test-code" if p["test"] else "prod-code", "options" if cfg[cmd] else "defaults")
                        if p.get("macro"):
                            key = "missed:in-macro-arguments:%s" % k[0]  # one mechanism whatever the options
                        ctx.discrepancy(key,
                                        "case %d line %d %r expected %s under {%s} (test=%s async=%s) - not reported" % (
                                            case["idx"], k[1], lines[k[1] - 1].strip(), k[0], opt, p["test"], p["async"]), dict(rep, expected=list(k)), files)
                    for k in list((got - exp).elements())[:4]:
                        pl = [p for p in case["planted"] if p["line"] == k[1]]
                        ctxs = ("test-code" if pl[0]["test"] else "prod-code") if pl else "unplanted-line"
                        ctx.discrepancy("spurious:%s:%s:%s" % (k[0], ctxs, "options" if cfg[cmd] else "defaults"),
                                        "case %d line %d %r reported as %s under %s (planted: %s)" % (case["idx"], k[1], lines[k[1] - 1].strip(), k[0], cfg[cmd], pl[:1]),
                                        dict(rep, observed=list(k)), files)
    c0 = cases[0]
    ctx.sample({"file_head": c0["text"][:700], "planted": c0["planted"][:8], "configs": c0["cfgs"]})
    ctx.inconclusive_if(min(ctx.counters["expected:" + c] for c in CMDS) < 30, "fewer than 30 expected findings for some command")
