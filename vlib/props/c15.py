"""C15 - each command reports only its own rules; rules fire only on their languages.

Monitor: boundary trace of every command on (a) trigger projects - rule ids must belong to the command's
documented family; (b) the same project under random *foreign* configuration sections - output unchanged;
(c) a polyglot project whose files carry another language's text / unsupported extensions - language-specific
linters must stay silent there; (d) extension-case / tsx / jsx / shebang twins - same findings as the
canonical twin.
"""
from __future__ import annotations

import json
import re
from collections import Counter

from .. import runner
from ..gen import triggers

PY_ONLY = {"method-property", "stateless-class", "lbyl", "pipeline"}
RUST_ONLY = {"unwrap-abuse", "clone-abuse", "blocking-async"}
PY_TS = {"improper-logging", "print-statements", "perf", "string-concat-loop", "regex-in-loop", "stringly-typed"}
ANY_SOURCE = {"nesting", "srp", "magic-numbers", "dry", "lazy-ignores"}
NON_SOURCE_OK = {"file-placement", "file-header"}
CROSS = {"dry", "stringly-typed"}  # documented for non-source file types
LANG_OF_EXT = {".py": "py", ".ts": "ts", ".tsx": "ts", ".js": "js", ".jsx": "js", ".rs": "rs"}

FOREIGN = {
    "nesting": lambda r: {"enabled": r.random() < 0.7, "max_nesting_depth": r.randint(1, 6)},
    "srp": lambda r: {"enabled": r.random() < 0.7, "max_methods": r.randint(1, 12), "max_loc": r.randint(10, 300), "check_keywords": r.random() < 0.5},
    "magic-numbers": lambda r: {"enabled": r.random() < 0.7, "allowed_numbers": r.sample([-1, 0, 1, 2, 10, 100, 37, 4217], 3), "max_small_integer": r.randint(1, 20)},
    "dry": lambda r: {"enabled": r.random() < 0.7, "min_duplicate_lines": r.randint(2, 6), "min_occurrences": r.randint(2, 4)},
    "stringly-typed": lambda r: {"enabled": r.random() < 0.7, "min_occurrences": r.randint(2, 4)},
    "improper-logging": lambda r: {"enabled": r.random() < 0.7},
    "print-statements": lambda r: {"enabled": r.random() < 0.7},
    "method-property": lambda r: {"enabled": r.random() < 0.7, "max_body_statements": r.randint(1, 5)},
    "stateless-class": lambda r: {"enabled": r.random() < 0.7, "min_methods": r.randint(1, 4)},
    "lbyl": lambda r: {"enabled": r.random() < 0.7, "detect_dict_key": r.random() < 0.5},
    "file-header": lambda r: {"enabled": r.random() < 0.7},
    "collection-pipeline": lambda r: {"enabled": r.random() < 0.7, "min_continues": r.randint(1, 3)},
    "performance": lambda r: {"enabled": r.random() < 0.7},
    "lazy-ignores": lambda r: {"enabled": r.random() < 0.7},
    "unwrap-abuse": lambda r: {"enabled": r.random() < 0.7, "allow_expect": r.random() < 0.5},
    "clone-abuse": lambda r: {"enabled": r.random() < 0.7, "allow_in_tests": r.random() < 0.5},
    "blocking-async": lambda r: {"enabled": r.random() < 0.7, "detect_sleep_in_async": r.random() < 0.5},
    "file-placement": lambda r: {"global_deny": [{"pattern": r.choice([".*\\.py$", ".*web.*", "^src/.*"]), "reason": "foreign"}]},
}
# config sections a command reads itself (never perturbed for that command)
OWN = {
    "nesting": ["nesting"], "srp": ["srp"], "magic-numbers": ["magic-numbers"], "dry": ["dry"], "stringly-typed": ["stringly-typed"],
    "improper-logging": ["improper-logging", "print-statements"], "print-statements": ["improper-logging", "print-statements"],
    "method-property": ["method-property"], "stateless-class": ["stateless-class"], "lbyl": ["lbyl"], "file-header": ["file-header"],
    "pipeline": ["collection-pipeline"], "perf": ["performance"], "string-concat-loop": ["performance"], "regex-in-loop": ["performance"],
    "lazy-ignores": ["lazy-ignores"], "unwrap-abuse": ["unwrap-abuse"], "clone-abuse": ["clone-abuse"], "blocking-async": ["blocking-async"],
    "file-placement": ["file-placement"],
}


def polyglot():
    t = triggers.files("y")
    py, ts, rs = t["src/appy.py"], t["src/weby.ts"], t["src/corey.rs"]
    files = {
        "swap/rust_text.py": rs, "swap/ts_text.py": ts, "swap/py_text.rs": py, "swap/ts_text.rs": ts, "swap/py_text.ts": py, "swap/rust_text.ts": rs,
        "swap/py_text.js": py,
    }
    for ext in (".java", ".go", ".txt", ".md", ".json", ".yaml", ".css", ".sh", ".c", ".rb", ".html", ""):
        files["unk/py_text%s" % ext if ext else "unk/py_noext"] = py
        files["unk/rs_text%s" % ext if ext else "unk/rs_noext"] = rs
        files["unk/ts_text%s" % ext if ext else "unk/ts_noext"] = ts
    files["unk/sh_script"] = "#!/bin/bash\n" + py
    files["unk/node_script"] = "#!/usr/bin/env node\n" + ts
    # a shebang of another interpreter; the word python occurs further down (a comment, a command line)
    files["unk/ruby_port"] = "#!/usr/bin/env ruby\n# Port of the python prototype (python3 tools/run.py)\n" + py
    files["unk/sh_wrapper"] = "#!/bin/sh\n# runs the python tool\nexec python3 -m tool \"$@\"\n" + py
    files["unk/shebang_later"] = "# not a shebang line\n#!/usr/bin/env python3\n" + py
    return files


def twins():
    t = triggers.files("w")
    py, ts, rs = t["src/appw.py"], t["src/webw.ts"], t["src/corew.rs"]
    js = ts.replace(": number[] = []", " = []").replace("(a: number): number", "(a)").replace("(a: number): void", "(a)") \
           .replace("(parts: string[]): string", "(parts)").replace("private items", "items")
    cfg = ".thailint.yaml"
    base = {"a/mod.py": py, "a/mod.ts": ts, "a/mod.rs": rs, "a/mod.js": js, cfg: t[cfg]}
    out = {"canonical": (base, {})}
    out["upper-ext"] = ({"a/mod.PY": py, "a/mod.TS": ts, "a/mod.RS": rs, "a/mod.JS": js, cfg: t[cfg]},
                        {"a/mod.PY": "a/mod.py", "a/mod.TS": "a/mod.ts", "a/mod.RS": "a/mod.rs", "a/mod.JS": "a/mod.js"})
    out["mixed-ext"] = ({"a/mod.Py": py, "a/mod.Ts": ts, "a/mod.rS": rs, "a/mod.Js": js, cfg: t[cfg]},
                        {"a/mod.Py": "a/mod.py", "a/mod.Ts": "a/mod.ts", "a/mod.rS": "a/mod.rs", "a/mod.Js": "a/mod.js"})
    out["tsx-jsx"] = ({"a/mod.py": py, "a/mod.tsx": ts, "a/mod.rs": rs, "a/mod.jsx": js, cfg: t[cfg]}, {"a/mod.tsx": "a/mod.ts", "a/mod.jsx": "a/mod.js"})
    out["shebang"] = ({"a/mod": "#!/usr/bin/env python3\n" + py, "a/mod.ts": ts, "a/mod.rs": rs, "a/mod.js": js, cfg: t[cfg]}, {"a/mod": "a/mod.py"})
    out["shebang-canonical"] = ({"a/mod.py": "#!/usr/bin/env python3\n" + py, "a/mod.ts": ts, "a/mod.rs": rs, "a/mod.js": js, cfg: t[cfg]}, {})
    # a file the linters exempt by NAME (calc_test.py): the exemption belongs to the name, the language to the extension in any letter case
    for name, (files, mapping) in out.items():
        tname = {"upper-ext": "a/calc_test.PY", "mixed-ext": "a/calc_test.Py"}.get(name, "a/calc_test.py")
        files[tname] = py
        if tname != "a/calc_test.py":
            mapping[tname] = "a/calc_test.py"
    # the documented per-language sections (nesting / srp / dry: python, typescript, javascript, rust) belong to "analysed as <language>":
    # thresholds that differ from the global ones, every file twice so that the cross-file linter has something to count
    import yaml
    doc = yaml.safe_load(t[cfg])
    langs = ("python", "typescript", "javascript", "rust")
    doc["nesting"] = dict({"enabled": True, "max_nesting_depth": 1}, **{lg: {"max_nesting_depth": 9} for lg in langs})
    doc["srp"] = dict({"enabled": True, "max_methods": 1, "max_loc": 5}, **{lg: {"max_methods": 60, "max_loc": 5000} for lg in langs})
    doc["dry"] = dict({"enabled": True, "min_duplicate_lines": 3, "min_occurrences": 2, "storage_mode": "memory"}, **{lg: {"min_occurrences": 3} for lg in langs})
    lcfg = yaml.safe_dump(doc, sort_keys=False)
    for name, exts in (("langcfg-canonical", (".py", ".ts", ".rs", ".js")), ("langcfg-upper-ext", (".PY", ".TS", ".RS", ".JS")), ("langcfg-mixed-ext", (".Py", ".tS", ".Rs", ".jS"))):
        files, mapping = {cfg: lcfg}, {}
        for ext, body in zip(exts, (py, ts, rs, js)):
            for stem in ("a/mod", "a/mod2"):
                files[stem + ext] = body
                if ext != ext.lower():
                    mapping[stem + ext] = stem + ext.lower()
        out[name] = (files, mapping)
    return out


def run_cmds(arg):
    files, cmds, target = arg[:3]
    extra = list(arg[3]) if len(arg) > 3 else []
    d = runner.new_dir("g")
    runner.write_tree(d, files)
    out = {}
    for cmd in cmds:
        r = runner.cli([cmd, "--format", "json"] + extra + (target if isinstance(target, list) else [target]), d)
        vs = r.violations()
        out[cmd] = {"exit": r.exit, "v": None if vs is None else sorted([v["rule_id"], v["file_path"], v["line"], v["column"], v["message"]] for v in vs),
                    "err": r.err[-300:] if vs is None else ""}
    return out


def dump_cfg(rng, cfg: dict) -> dict:
    """config dict -> {filename: text} in a random carrier; hyphen/underscore spelling randomised per section."""
    spelled = {}
    for k, v in cfg.items():
        spelled[k.replace("-", "_") if rng.random() < 0.5 else k] = v
    if cfg.get("__carrier__") == "yaml-aliases":
        import yaml

        spelled = {k: v for k, v in spelled.items() if not k.startswith("__")}
        return {".thailint.yaml": yaml.safe_dump(spelled, sort_keys=False)}  # (lists shared between sections come out as &anchor / *alias)
    return {".thailint.json": json.dumps(spelled, indent=1)}


def run(ctx):
    ctx.rule = ("cases: (a) command x trigger project -> rule-id family; (b) command x random foreign configuration -> unchanged output; "
                "(c) command x polyglot/unsupported files -> silence; (d) command x extension-case/tsx/jsx/shebang twin -> same findings. "
                "distinct non-trivial = (kind, command, variant) where the reference side has >= 1 violation or the file would trigger in its own language")
    ctx.assumptions = ["rule-id families from docs/cli-reference.md and the per-linter docs (vlib/gen/triggers.py COMMANDS)",
                       "file-placement and file-header document non-source file types and are exempt from the 'unrecognised type' clause",
                       "a command's own section (and its documented alias) is never perturbed in the foreign-configuration relation"]
    rng = ctx.rng()
    cmds = triggers.CMDS
    base = triggers.files("f")
    base_cfg = {"dry": {"enabled": True, "min_duplicate_lines": 3},
                "file-placement": {"global_deny": [{"pattern": ".*thirdf\\.py$", "reason": "no third module here"}]}}
    srcs = {k: v for k, v in base.items() if k != ".thailint.yaml"}
    # files in places some linters' DEFAULT ignore lists name (tests/, conftest.py): linted by every rule that does not have such a default
    srcs["pkg/tests/test_sample.py"] = srcs["src/appf.py"].replace("f(", "f_t(")
    srcs["pkg/conftest.py"] = srcs["src/otherf.py"]
    jobs, meta = [], []
    jobs.append((dict(srcs, **{".thailint.json": json.dumps(base_cfg)}), cmds, "."))
    meta.append(("base", None))
    nfor = ctx.size(25, 300)
    for i in range(nfor):
        cmd = cmds[i % len(cmds)]
        cfg = json.loads(json.dumps(base_cfg))
        for sec in rng.sample(sorted(FOREIGN), rng.randint(3, len(FOREIGN))):
            if sec in OWN[cmd]:
                continue
            cfg[sec] = FOREIGN[sec](rng)
        if i < len(cmds) or rng.random() < 0.4:  # (every command once, then at random)
            # one neutral ignore list (it matches no file) written once and referred to by several sections, the command's own included:
            # what one linter does with its copy must not reach the others
            shared = ["nomatch_dir/", "**/nomatch_*.xyz"]
            for sec in set(rng.sample(sorted(FOREIGN), 3) + ["stringly-typed"] + OWN[cmd][:1]) - {"file-placement"}:
                cfg.setdefault(sec, {})["ignore"] = shared
            cfg["__carrier__"] = "yaml-aliases"
        jobs.append((dict(srcs, **dump_cfg(rng, cfg)), [cmd], "."))
        meta.append(("foreign", (cmd, cfg)))
    # rules that share one section (performance): the documented per-rule switch of ONE of them is foreign configuration for the command of the OTHER
    for cmd, sibling in (("string-concat-loop", "regex-in-loop"), ("regex-in-loop", "string-concat-loop")):
        for spelled in (sibling, sibling.replace("-", "_")):
            for carrier in ("yaml-aliases", "json"):
                cfg = json.loads(json.dumps(base_cfg))
                cfg["performance"] = {spelled: {"enabled": False}}
                if carrier == "yaml-aliases":
                    cfg["__carrier__"] = "yaml-aliases"
                jobs.append((dict(srcs, **dump_cfg(rng, cfg)), [cmd], "."))
                meta.append(("foreign", (cmd, cfg)))
    # the same relation with the worker pool (enough files for --parallel to really use it): sections are read again in every worker and in the
    # parent's cross-file pass
    fill = {"fill/f%02d.py" % k: "def fill_%d(a):\n    print(a)\n    return a * %d\n" % (k, 10007 + k) for k in range(20)}
    jobs.append((dict(srcs, **dict(fill, **{".thailint.json": json.dumps(base_cfg)})), cmds, ".", ["--parallel"]))
    meta.append(("base-parallel", None))
    par_cmds = ["dry", "stringly-typed"] + [c for c in cmds if c not in ("dry", "stringly-typed")]
    for i in range(ctx.size(12, 120)):
        cmd = par_cmds[i % len(par_cmds)] if i >= 6 else par_cmds[i % 2]
        cfg = json.loads(json.dumps(base_cfg))
        secs = rng.sample(sorted(FOREIGN), rng.randint(2, 6))
        for sec in secs:
            if sec not in OWN[cmd]:
                cfg[sec] = FOREIGN[sec](rng)
        if i < 6:
            other = "dry" if cmd == "stringly-typed" else "stringly-typed"
            cfg[other] = dict(FOREIGN[other](rng), enabled=(i >= 4))  # the other cross-file rule switched off (on in the last pair)
        jobs.append((dict(srcs, **dict(fill, **dump_cfg(rng, cfg))), [cmd], ".", ["--parallel"]))
        meta.append(("foreign-parallel", (cmd, cfg)))
    poly = polyglot()
    jobs.append((poly, cmds, "."))
    meta.append(("polyglot", None))
    tw = twins()
    for name, (files, mapping) in tw.items():
        jobs.append((files, cmds, "."))
        meta.append(("twin", (name, mapping)))
    # extension-less pair: language is decided per file (python shebang or not), in whatever order the files are seen
    py_body = triggers.files("x")["src/appx.py"]
    pair = {"bin/a_tool": "#!/usr/bin/env python3\n" + py_body, "bin/z_notes": py_body, "bin/m_data.txt": py_body, "bin/q_more.txt": "#!/usr/bin/env python3\n" + py_body,
            "bin/ref_tool.py": "#!/usr/bin/env python3\n" + py_body}
    for order in (["bin/a_tool", "bin/z_notes", "bin/q_more.txt", "bin/m_data.txt", "bin/ref_tool.py"], ["bin/z_notes", "bin/ref_tool.py", "bin/m_data.txt", "bin/a_tool", "bin/q_more.txt"], ["bin"]):
        jobs.append((pair, cmds, order))
        meta.append(("shebang-pair", order))
    outs = runner.pmap(run_cmds, jobs, timeout=600)
    for (kind, _), o in zip(meta, outs):
        if not o.get("ok"):
            ctx.inconclusive_if(True, "%s job failed in harness: %s" % (kind, str(o)[:300]))
            return
    res = [o["value"] for o in outs]
    base_res = res[0]
    # (a) family
    for cmd in cmds:
        ctx.evaluations += 1
        r = base_res[cmd]
        if r["v"] is None:
            ctx.discrepancy("run-error:%s" % cmd, "base run failed: exit %s %s" % (r["exit"], r["err"]), {"argv": [cmd, "--format", "json", "."]}, jobs[0][0])
            continue
        if r["v"]:
            ctx.nontrivial(["family", cmd])
        ctx.count("family_checked", len(r["v"]))
        for v in r["v"]:
            if not v[0].startswith(triggers.COMMANDS[cmd]):
                ctx.discrepancy("foreign-rule-id:%s" % cmd, "`thailint %s` printed a violation of rule %s (%s:%s)" % (cmd, v[0], v[1], v[2]),
                                {"argv": [cmd, "--format", "json", "."]}, jobs[0][0])
    ctx.inconclusive_if(any(not base_res[c]["v"] for c in cmds), "trigger project does not trigger %s" % [c for c in cmds if not base_res[c]["v"]])
    # (b) foreign configuration
    base_seq = base_res
    base_par = res[[m[0] for m in meta].index("base-parallel")]
    for (kind, info), r, job in zip(meta, res, jobs):
        if kind not in ("foreign", "foreign-parallel"):
            continue
        cmd, cfg = info
        ctx.evaluations += 1
        got = r[cmd]
        base_res = base_par if kind == "foreign-parallel" else base_seq
        ctx.count("foreign_config_checked" if kind == "foreign" else "foreign_config_parallel_checked")
        ctx.nontrivial([kind, cmd, sorted(k for k in cfg if k not in base_cfg), json.dumps(cfg, sort_keys=True)])
        if got["v"] != base_res[cmd]["v"] or got["exit"] != base_res[cmd]["exit"]:
            a, b = Counter(map(tuple, base_res[cmd]["v"] or [])), Counter(map(tuple, got["v"] or []))
            # attribute to the foreign section(s) by name for the mechanism key
            ctx.discrepancy("foreign-config-changes:%s%s" % (cmd, ":parallel" if kind == "foreign-parallel" else ""), "`%s` changed under foreign sections %s: lost %r gained %r exit %s->%s %s" % (
                cmd, sorted(k for k in cfg if k not in OWN[cmd]), list((a - b).elements())[:2], list((b - a).elements())[:2],
                base_res[cmd]["exit"], got["exit"], got["err"][-200:]), {"argv": [cmd, "--format", "json"] + (["--parallel"] if kind == "foreign-parallel" else []) + ["."], "config": cfg}, job[0])
    base_res = base_seq
    # (c) language dispatch on swapped / unsupported files
    pres = res[[m[0] for m in meta].index("polyglot")]
    for cmd in cmds:
        ctx.evaluations += 1
        r = pres[cmd]
        if r["v"] is None:
            ctx.discrepancy("run-error-polyglot:%s" % cmd, "exit %s %s" % (r["exit"], r["err"]), {"argv": [cmd, "--format", "json", "."]}, poly)
            continue
        ctx.count("polyglot_checked")
        ctx.nontrivial(["polyglot", cmd])
        for v in r["v"]:
            fp = v[1]
            ext = "." + fp.rsplit(".", 1)[1] if "." in fp.rsplit("/", 1)[-1] else ""
            lang = LANG_OF_EXT.get(ext.lower())
            if fp.startswith("unk/"):
                if cmd not in NON_SOURCE_OK:
                    ctx.discrepancy("unknown-type-analysed:%s" % cmd, "`%s` reports %s on %s (unrecognised file type)" % (cmd, v[0], fp),
                                    {"argv": [cmd, "--format", "json", "."]}, poly)
            elif cmd in PY_ONLY and lang != "py":
                ctx.discrepancy("python-rule-on-%s:%s" % (lang, cmd), "`%s` reports %s on %s" % (cmd, v[0], fp), {"argv": [cmd, "--format", "json", "."]}, poly)
            elif cmd in RUST_ONLY and lang != "rs":
                ctx.discrepancy("rust-rule-on-%s:%s" % (lang, cmd), "`%s` reports %s on %s" % (cmd, v[0], fp), {"argv": [cmd, "--format", "json", "."]}, poly)
            elif cmd in PY_TS and lang == "rs":
                ctx.discrepancy("py-ts-rule-on-rs:%s" % cmd, "`%s` reports %s on %s" % (cmd, v[0], fp), {"argv": [cmd, "--format", "json", "."]}, poly)
    # (c2) extension-less pair
    ref_job = None
    for (kind, info), r, job in zip(meta, res, jobs):
        if kind != "shebang-pair":
            continue
        for cmd in cmds:
            ctx.evaluations += 1
            if r[cmd]["v"] is None:
                ctx.discrepancy("run-error-shebang-pair:%s" % cmd, "%s: %s" % (info, r[cmd]["err"]), {"argv": [cmd, "--format", "json"] + info}, job[0])
                continue
            ctx.count("shebang_pair_checked")
            by_file = {}
            for v in r[cmd]["v"]:
                by_file.setdefault(v[1], []).append((v[0], v[2], v[3]))
            for f in ("bin/z_notes", "bin/m_data.txt"):  # (q_more.txt: unknown extension WITH a python shebang - not judged, the property only names extension-less scripts)
                if by_file.get(f) and cmd not in NON_SOURCE_OK:
                    ctx.discrepancy("no-shebang-file-analysed:%s" % cmd, "`%s %s`: %s (no python shebang / unrecognised extension) gets %r" % (cmd, " ".join(info), f, by_file[f][:2]),
                                    {"argv": [cmd, "--format", "json"] + info}, job[0])
            if cmd not in NON_SOURCE_OK and cmd not in CROSS:
                # the shebang script is analysed exactly like its .py twin (same content), wherever it comes in the order
                a, b = sorted(by_file.get("bin/a_tool", [])), sorted(by_file.get("bin/ref_tool.py", []))
                if a != b:
                    ctx.discrepancy("shebang-script-differs-from-py-twin:%s" % cmd, "`%s %s`: extension-less python script gets %r, its .py twin %r" % (cmd, " ".join(info), a[:2], b[:2]),
                                    {"argv": [cmd, "--format", "json"] + info}, job[0])
    # (d) twins
    canon = res[[m for m in meta].index(("twin", ("canonical", {})))]
    for (kind, info), r, job in zip(meta, res, jobs):
        if kind != "twin" or info[0] in ("canonical", "shebang-canonical", "langcfg-canonical"):
            continue
        name, mapping = info
        ref = canon
        if name.startswith("langcfg-"):
            ref = res[[m[0] == "twin" and m[1][0] == "langcfg-canonical" for m in meta].index(True)]
        if name == "shebang":
            ref = res[[m[0] == "twin" and m[1][0] == "shebang-canonical" for m in meta].index(True)]
        for cmd in cmds:
            ctx.evaluations += 1
            if r[cmd]["v"] is None or ref[cmd]["v"] is None:
                ctx.discrepancy("run-error-twin:%s" % cmd, "%s: %s" % (name, r[cmd]["err"] or ref[cmd]["err"]), {"argv": [cmd, "--format", "json", "."]}, job[0])
                continue

            def mp(rows):
                outr = []
                for row in rows:
                    fp = mapping.get(row[1], row[1])
                    msg = row[4]
                    for k, v2 in mapping.items():
                        msg = re.sub(r"(?<![\w/.])(a/)?%s(?![\w.])" % re.escape(k.rsplit("/", 1)[-1]),
                                     lambda m, v2=v2: (m.group(1) or "") + v2.rsplit("/", 1)[-1], msg)
                    outr.append((row[0], fp, row[2], row[3], msg))
                return Counter(outr)
            a = Counter(map(tuple, ref[cmd]["v"]))
            b = mp(r[cmd]["v"])
            if name in ("tsx-jsx",):
                # compare only on the files whose extension changed (tsx is a different grammar for some constructs)
                pass
            ctx.count("twin_checked")
            if a:
                ctx.nontrivial(["twin", name, cmd])
            if a != b:
                lost, gained = list((a - b).elements()), list((b - a).elements())
                exts = sorted({x[1].rsplit(".", 1)[-1] if "." in x[1] else "noext" for x in lost + gained})
                ctx.discrepancy("twin:%s:%s:%s" % (name, cmd, "+".join(exts)), "%s variant, `%s`: lost %r gained %r" % (name, cmd, lost[:2], gained[:2]),
                                {"argv": [cmd, "--format", "json", "."], "variant": name}, job[0])
    ctx.sample({"foreign_config_example": meta[1][1][1] if len(meta) > 1 else None, "polyglot_files": sorted(poly)[:12], "twin_variants": sorted(tw)})
    ctx.inconclusive_if(ctx.counters["foreign_config_checked"] < 20, "too few foreign-configuration cases")
