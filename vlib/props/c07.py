"""C07 - --parallel reports exactly what the sequential run reports.

Monitors: M-RUN (sequential vs parallel results at the library and the CLI boundary), M-SCHED
(src.orchestrator.core.as_completed replaced in the parent by a seeded permutation of the finished
futures; natural order recorded too), M-VIS (Orchestrator.lint_file wrapped; events appended with
O_APPEND from the forked pool workers -> exactly-once dispatch, pids seen).
Oracle: multiset equality over all seven violation fields (library) / five JSON fields + exit code (CLI).
"""
from __future__ import annotations

import os
import random
from collections import Counter

from .. import runner
from ..gen import ctrl, triggers

CROSS_FILE = ("dry.", "stringly-typed.")


def make_project(rng, nfiles: int, tag: str) -> dict:
    """Multi-language project with per-file and cross-file findings and exactly nfiles source files."""
    files = {}
    i = 0
    while len(files) < nfiles:
        v = triggers.random_files(rng, tag="%s%d" % (tag, i))
        # keep the validation-string triple shared so stringly-typed has cross-file material
        v = triggers.files("%s%d" % (tag, i), n1=rng.randint(20, 999), n2=rng.randint(1001, 9999), n3=rng.randint(1001, 9999))
        for k in sorted(v):
            if k == ".thailint.yaml":
                continue
            if len(files) < nfiles:
                files[k] = v[k]
        i += 1
    # files whose language is known from a shebang only (no extension): a pair of them shares a block with each other and with a .py module, so
    # the cross-file findings involve files that a suffix-based shortcut would not see
    if nfiles >= 6:
        shared = "    alpha_%s = left + right\n    beta_%s = alpha_%s * left\n    gamma_%s = beta_%s - right\n    delta_%s = gamma_%s + alpha_%s\n    return delta_%s\n" % ((tag,) * 9)
        drop = sorted(files)[-3:]
        for k in drop:
            del files[k]
        files["bin/deploy_%s" % tag] = "#!/usr/bin/env python3\ndef deploy_%s(left, right):\n%s" % (tag, shared)
        files["bin/release_%s" % tag] = "#!/usr/bin/env python3\ndef release_%s(left, right):\n%s" % (tag, shared)
        files["bin/helper_%s.py" % tag] = "def helper_%s(left, right):\n%s" % (tag, shared)
    # alias bait: one module aliases a library under the name the next one uses for something unrelated - a rule instance that lints
    # both (sequential run) must judge each on its own, like the per-file instances of the workers do
    if nfiles >= 8:
        for k in [f for f in sorted(files) if not f.startswith("bin/")][:2]:  # (the shebang scripts stay)
            del files[k]
        files["src/aa_bait_%s.py" % tag] = ("import re as rx\nimport logging as lg\n\n\ndef scan_a_%s(lines, pat):\n    out = []\n    for line in lines:\n        if pat.match(line):\n            out.append(line)\n"
                                            "    lg.info(out)\n    return out\n\n\ndef by_alias_%s(lines):\n    return [line for line in lines if rx.match(\"x\", line)]\n") % (tag, tag)
        files["src/ab_bait_%s.py" % tag] = ("import regex as pat\n\n\ndef scan_b_%s(lines, rx, lg):\n    out = []\n    for line in lines:\n        if rx.match(line):\n            out.append(line)\n        lg.write(line)\n"
                                            "    return out\n\n\ndef by_alias_b_%s(lines):\n    return [line for line in lines if pat.match(\"y\", line)]\n") % (tag, tag)
    return files


CONFIG = "dry:\n  enabled: true\n  min_duplicate_lines: 3\n"


def lib_case(case):
    """Runs in a forked child: sequential on a fresh Orchestrator, then parallel runs under forced completion orders."""
    import concurrent.futures as cf
    from pathlib import Path

    import src.orchestrator.core as core

    root = runner.new_dir("l")
    files = dict(case["files"])
    files[".thailint.yaml"] = case["config"]
    runner.write_tree(root, files)
    os.chdir(root)
    os.environ["THAILINT_VERIF_FAILLOG"] = os.path.join(root, ".git", "faillog")
    os.dup2(os.open(os.path.join(root, ".git", "stderr.log"), os.O_WRONLY | os.O_CREAT | os.O_APPEND, 0o600), 2)
    evlog = os.path.join(root, ".git", "events.log")
    fd = os.open(evlog, os.O_WRONLY | os.O_CREAT | os.O_APPEND, 0o600)
    # the per-file step every entry point goes through (sequential loop, directory walk, pool worker); the parent's second pass over the
    # files for the cross-file rules names its rules explicitly and is not a dispatch
    prim = "_lint_file_with_rules" if hasattr(core.Orchestrator, "_lint_file_with_rules") else "lint_file"
    orig_lint_file = getattr(core.Orchestrator, prim)

    def lint_file(self, file_path, only_rules=None):
        if only_rules is None:
            os.write(fd, ("%d\t%s\n" % (os.getpid(), file_path)).encode("utf-8", "surrogateescape"))
        return orig_lint_file(self, file_path, only_rules) if prim != "lint_file" else orig_lint_file(self, file_path)

    setattr(core.Orchestrator, prim, lint_file)
    paths = [Path(root) / f for f in sorted(case["files"])]
    rnd = random.Random(case["seed"])
    rnd.shuffle(paths)

    def tup(v):
        return [v.rule_id, os.path.relpath(str(v.file_path), root) if os.path.isabs(str(v.file_path)) else str(v.file_path),
                v.line, v.column, v.message, v.severity.value, v.suggestion]

    def read_events():
        os.lseek(fd, 0, os.SEEK_END)
        with open(evlog, encoding="utf-8", errors="surrogateescape") as f:
            rows = [ln.rstrip("\n").split("\t", 1) for ln in f if ln.strip()]
        os.truncate(evlog, 0)
        return rows

    out = {"n": len(paths), "runs": []}
    try:
        seq = core.Orchestrator(project_root=Path(root)).lint_files(list(paths))
        out["seq"] = sorted(tup(v) for v in seq)
        out["seq_error"] = None
    except Exception as e:  # noqa: BLE001
        out["seq"] = None
        out["seq_error"] = "%s: %s" % (type(e).__name__, e)
    read_events()
    natural = []
    orders = []
    real_as_completed = cf.as_completed
    for k in case["workers"]:
        for p in range(case["perms"]):
            prnd = random.Random("%s:%d:%d" % (case["seed"], k, p))

            def forced(fs, timeout=None, _prnd=prnd):
                fs = list(fs)
                nat = [fs.index(f) for f in real_as_completed(fs)]
                natural.append(tuple(nat))
                order = list(range(len(fs)))
                if p == 0:
                    order = nat
                elif p == 1:
                    order.reverse()
                else:
                    _prnd.shuffle(order)
                orders.append(tuple(order))
                for i in order:
                    yield fs[i]

            core.as_completed = forced
            rec = {"k": k, "perm": p}
            try:
                if case.get("directory"):
                    par = core.Orchestrator(project_root=Path(root)).lint_directory_parallel(Path(root), max_workers=k)
                else:
                    par = core.Orchestrator(project_root=Path(root)).lint_files_parallel(list(paths), max_workers=k)
                rec["par"] = sorted(tup(v) for v in par)
                rec["error"] = None
            except Exception as e:  # noqa: BLE001
                rec["par"] = None
                rec["error"] = "%s: %s" % (type(e).__name__, e)
            ev = read_events()
            rec["dispatch"] = Counter(os.path.relpath(f, root) for _, f in ev)
            rec["pids"] = len(set(pid for pid, _ in ev))
            rec["parent_pid_dispatches"] = sum(1 for pid, _ in ev if int(pid) == os.getpid())
            out["runs"].append(rec)
    core.as_completed = real_as_completed
    out["distinct_natural_orders"] = len(set(natural))
    out["distinct_forced_orders"] = len(set(orders))
    out["swallowed"] = runner._read_faillog(os.environ.get("THAILINT_VERIF_FAILLOG", "/nonexistent"))
    return out


ALT_CONFIG = "dry:\n  enabled: true\n  min_duplicate_lines: 4\nnesting:\n  max_nesting_depth: 1\nmagic-numbers:\n  allowed_numbers: [0]\n  max_small_integer: 1\nsrp:\n  max_methods: 1\n"


def used_case(case):
    """Runs in a forked child: two Orchestrator objects with the same history (an earlier run, then a configuration loaded the way the CLI's
    --config does it), one asked sequentially, one with the worker pool."""
    from pathlib import Path

    import src.orchestrator.core as core

    root = runner.new_dir("u")
    files = dict(case["files"])
    files[".thailint.yaml"] = case["config"]
    runner.write_tree(root, files)
    alt = os.path.join(root, ".git", "alt.yaml")
    with open(alt, "w", encoding="utf-8") as f:
        f.write(ALT_CONFIG)
    os.chdir(root)
    os.environ["THAILINT_VERIF_FAILLOG"] = os.path.join(root, ".git", "faillog")
    os.dup2(os.open(os.path.join(root, ".git", "stderr.log"), os.O_WRONLY | os.O_CREAT | os.O_APPEND, 0o600), 2)
    paths = [Path(root) / f for f in sorted(case["files"])]

    def tup(v):
        return [v.rule_id, os.path.relpath(str(v.file_path), root) if os.path.isabs(str(v.file_path)) else str(v.file_path),
                v.line, v.column, v.message, v.severity.value, v.suggestion]

    out = {"n": len(paths)}
    for mode in ("seq", "par"):
        o = core.Orchestrator(project_root=Path(root))
        try:
            hist = paths[:case["history_files"]]
            if case["history"] == "seq":
                o.lint_files(list(hist))
            elif case["history"] == "par":
                o.lint_files_parallel(list(hist), max_workers=case["k"])
            if case["reconfigure"]:
                o.config = o.config_loader.load(Path(alt))
            vs = o.lint_files(list(paths)) if mode == "seq" else o.lint_files_parallel(list(paths), max_workers=case["k"])
            out[mode] = sorted(tup(v) for v in vs)
        except Exception as e:  # noqa: BLE001
            out[mode] = None
            out[mode + "_error"] = "%s: %s" % (type(e).__name__, e)
    return out


def cli_case(case):
    root = runner.new_dir("p")
    cwd = root
    targets = case["targets"]
    if case.get("parent"):
        # the project lives under a directory with a special name; targets are spelled through it
        base = root
        root = os.path.join(base, case["parent"], "proj")
        os.makedirs(root)
        if case["spelling"] == "abs":
            cwd, targets = base, [os.path.join(root, t) if t != "." else root for t in targets]
        else:
            cwd, targets = base, [os.path.normpath(os.path.join(case["parent"], "proj", t)) for t in targets]
    files = dict(case["files"])
    files[".thailint.yaml"] = case["config"]
    runner.write_tree(root, files)
    res = {}
    for mode in ("seq", "par"):
        argv = case.get("pre", []) + [case["cmd"], "--format", "json"] + case.get("post", []) + (["--parallel"] if mode == "par" else []) + targets
        r = runner.cli(argv, cwd, timeout=300)
        vs = r.violations()
        res[mode] = {"exit": r.exit, "v": None if vs is None else sorted([v["rule_id"], v["file_path"], v["line"], v["column"], v["message"]] for v in vs),
                     "err": r.err[-400:], "argv": argv, "swallowed": r["swallowed"]}
    return res


def classify(only_seq, only_par):
    """Mechanism key for a sequential/parallel difference."""
    if not only_par and only_seq:
        fams = {next((p for p in CROSS_FILE if r[0].startswith(p)), None) for r in only_seq}
        if None not in fams:
            return "parallel-loses-cross-file"
    return "seq-par-differ"


def run(ctx):
    ctx.rule = ("case = (project of n files, worker count k, forced completion order) compared with the sequential run on a fresh "
                "orchestrator; distinct non-trivial = (n, k, permutation index, entry point) where the parallel path is really taken "
                "(n >= 2k) or the fallback boundary is straddled, and the sequential run has violations")
    ctx.assumptions = ["the sequential run is the specification", "fork start method (Python 3.12 default on Linux): harness wrappers are inherited by pool workers",
                       "completion orders are forced in the parent after all futures finished; the natural orders seen are reported"]
    rng = ctx.rng()
    lib_cases = []
    ks = [1, 2, 3, 4, 8, 16] if not ctx.quick else [1, 2, 4, 8]
    perms = 4 if ctx.quick else 12
    idx = 0
    for k in ks:
        for n in sorted({1, max(1, 2 * k - 1), 2 * k, 2 * k + 1, 5 * k}):
            if ctx.quick and n > 45:
                continue
            idx += 1
            lib_cases.append({"files": make_project(rng, n, "w%d" % idx), "config": CONFIG, "workers": [k], "perms": perms,
                              "seed": "%d:%d" % (ctx.seed, idx), "directory": idx % 4 == 0, "id": "lib:n%d:k%d" % (n, k)})
    # configuration error: sequential raises ValueError (exit 2 at the CLI) - parallel must too
    bad_cfg = CONFIG + "nesting:\n  max_nesting_depth: 0\n"
    lib_cases.append({"files": make_project(rng, 12, "bad"), "config": bad_cfg, "workers": [2], "perms": 1, "seed": "bad", "id": "lib:invalid-config"})
    outs = runner.pmap(lib_case, lib_cases, timeout=900, workers=6)
    orders_nat = orders_forced = 0
    for case, o in zip(lib_cases, outs):
        if not o.get("ok"):
            ctx.inconclusive_if(True, "library case %s failed in harness: %s" % (case["id"], str(o)[:400]))
            continue
        v = o["value"]
        orders_nat += v["distinct_natural_orders"]
        orders_forced += v["distinct_forced_orders"]
        for rec in v["runs"]:
            ctx.evaluations += 1
            k, n = rec["k"], v["n"]
            took_parallel = n >= 2 * k
            ctx.count("lib_runs_parallel_path" if took_parallel else "lib_runs_fallback_path")
            ctx.obs.setdefault("max_pids_seen", 0)
            ctx.obs["max_pids_seen"] = max(ctx.obs["max_pids_seen"], rec["pids"])
            rep = {"id": case["id"], "k": k, "n": n, "perm": rec["perm"], "directory": bool(case.get("directory"))}
            if v["seq"] is None or rec["par"] is None:
                if (v["seq"] is None) != (rec["par"] is None):
                    key = "invalid-config-not-raised-in-parallel" if case["id"] == "lib:invalid-config" else "error-differs"
                    ctx.discrepancy(key, "%s: sequential error=%r parallel error=%r" % (case["id"], v["seq_error"], rec["error"]), rep, case["files"])
                else:
                    ctx.count("both_raise")
                    ctx.nontrivial(["both-raise", case["id"]])
                continue
            if v["seq"]:
                ctx.nontrivial([n, k, rec["perm"], "lib", bool(case.get("directory"))])
            a = Counter(map(tuple, v["seq"]))
            b = Counter(map(tuple, rec["par"]))
            ctx.count("violations_compared", sum(a.values()))
            if a != b:
                only_seq, only_par = list((a - b).elements()), list((b - a).elements())
                ctx.discrepancy(classify(only_seq, only_par), "%s perm %d: %d only sequential (e.g. %r), %d only parallel (e.g. %r)" % (
                    case["id"], rec["perm"], len(only_seq), only_seq[:1], len(only_par), only_par[:1]),
                    dict(rep, expected=only_seq[:5], observed=only_par[:5]), case["files"])
                # per-file rules must still agree exactly
                a2 = Counter(t for t in a.elements() if not t[0].startswith(CROSS_FILE))
                b2 = Counter(t for t in b.elements() if not t[0].startswith(CROSS_FILE))
                if a2 != b2:
                    ctx.discrepancy("seq-par-differ:per-file-rules", "%s: per-file rules differ: %r vs %r" % (
                        case["id"], list((a2 - b2).elements())[:2], list((b2 - a2).elements())[:2]), rep, case["files"])
            # exactly-once dispatch (no loss, no duplication between submitted work items and worker executions)
            want = Counter({f: 1 for f in case["files"]})
            if case.get("directory"):
                want[".thailint.yaml"] = 1
            if rec["dispatch"] != want:
                ctx.discrepancy("dispatch-not-exactly-once", "%s: dispatch counts %r" % (case["id"], {f: c for f, c in rec["dispatch"].items() if c != 1} or
                                                                                      sorted(set(want) - set(rec["dispatch"]))[:5]), rep, case["files"])
            ctx.count("dispatch_events", sum(rec["dispatch"].values()))
            if took_parallel and rec["parent_pid_dispatches"]:
                ctx.count("parallel_runs_with_parent_dispatch")
    # objects with a history: an earlier run and/or a configuration loaded after construction (what --config does) - both entry points of the same
    # object must still agree
    used_cases = []
    for j, (hist, reconf, hf) in enumerate([("seq", True, 1), ("seq", True, 99), ("par", True, 99), ("none", True, 0), ("seq", False, 3), ("par", False, 99)]):
        for k in ([2] if ctx.quick else [1, 2, 4]):
            n = rng.choice([2 * k, 4 * k + 1, 20])
            used_cases.append({"files": make_project(rng, n, "u%d%d" % (j, k)), "config": CONFIG, "k": k, "history": hist, "reconfigure": reconf, "history_files": hf,
                               "id": "lib-used:history-%s:%s:k%d:n%d" % (hist, "reconfigured" if reconf else "same-config", k, n)})
    outs = runner.pmap(used_case, used_cases, timeout=900, workers=6)
    for case, o in zip(used_cases, outs):
        if not o.get("ok"):
            ctx.inconclusive_if(True, "used-object case %s failed in harness: %s" % (case["id"], str(o)[:400]))
            continue
        v = o["value"]
        ctx.evaluations += 2
        ctx.count("used_object_comparisons")
        rep = {"id": case["id"], "k": case["k"], "history": case["history"], "reconfigure": case["reconfigure"]}
        if v["seq"] is None or v["par"] is None:
            ctx.discrepancy("used-object:error", "%s: sequential error=%r parallel error=%r" % (case["id"], v.get("seq_error"), v.get("par_error")), rep, case["files"])
            continue
        a, b = Counter(map(tuple, v["seq"])), Counter(map(tuple, v["par"]))
        if a:
            ctx.nontrivial([case["history"], case["reconfigure"], case["k"], "lib-used"])
        if a != b:
            only_seq, only_par = list((a - b).elements()), list((b - a).elements())
            ctx.discrepancy("used-object:" + classify(only_seq, only_par) + (":after-config-load" if case["reconfigure"] else ""),
                            "%s: %d only sequential (e.g. %r), %d only parallel (e.g. %r)" % (case["id"], len(only_seq), only_seq[:1], len(only_par), only_par[:1]),
                            dict(rep, expected=only_seq[:5], observed=only_par[:5]), case["files"])
    ctx.obs["distinct_natural_completion_orders"] = orders_nat
    ctx.obs["distinct_forced_completion_orders"] = orders_forced
    # CLI level
    cli_cases = []
    cmds = ["nesting", "magic-numbers", "srp", "dry", "stringly-typed", "unwrap-abuse", "clone-abuse", "improper-logging", "perf", "lbyl"]
    for j, n in enumerate([3, 15, 16, 17, 40] if ctx.quick else [1, 3, 15, 16, 17, 31, 40, 80]):
        proj = make_project(rng, n, "c%d" % j)
        for cmd in (cmds if not ctx.quick else rng.sample(cmds, 5) + ["dry", "stringly-typed"]):
            tg = rng.choice([["."], ["src"], sorted(proj)])
            cli_cases.append({"files": proj, "config": CONFIG, "cmd": cmd, "targets": tg, "id": "cli:n%d:%s" % (n, cmd), "n": n})
    # overlapping targets: a file reached twice (a directory and a file in it, nested directories, the same path under two spellings) is linted
    # twice by the sequential run - the parallel run must say the same
    for j, n in enumerate([18, 40]):
        proj = make_project(rng, n, "ov%d" % j)
        srcs = sorted(f for f in proj if f.startswith("src/"))
        for k, tg in enumerate([["src", srcs[0]], [".", "src"], [srcs[0], "./" + srcs[0], "src"], ["src", "src"]]):
            cli_cases.append({"files": proj, "config": CONFIG, "cmd": rng.choice(["magic-numbers", "nesting", "improper-logging"]), "targets": tg,
                              "id": "cli:overlapping-targets:%d:n%d" % (k, n), "n": n})
    # --no-recursive: the parallel file collection must stop at the same depth
    proj_nr = make_project(rng, 48, "nr")
    for tg in (["src"], ["."], ["src", "bin"]):
        cli_cases.append({"files": proj_nr, "config": CONFIG, "cmd": rng.choice(["magic-numbers", "improper-logging"]), "targets": tg, "post": ["--no-recursive"],
                          "id": "cli:no-recursive:%s" % "+".join(tg), "n": 48})
    cli_cases.append({"files": make_project(rng, 20, "cb"), "config": bad_cfg, "cmd": "nesting", "targets": ["."], "id": "cli:invalid-config", "n": 20})
    # explicit (command- or group-level) --config file that is empty / comments only, while the project root has its own settings
    for j, (level, content) in enumerate([("cmd", ""), ("cmd", "# nothing configured here\n"), ("group", "{}\n"), ("cmd", "{}")]):
        proj = make_project(rng, 24, "ec%d" % j)
        proj["empty_cfg.yaml" if "{" not in content or content.endswith("\n") else "empty_cfg.json"] = content
        cfgname = "empty_cfg.yaml" if "empty_cfg.yaml" in proj else "empty_cfg.json"
        cli_cases.append({"files": proj, "config": CONFIG + "nesting:\n  max_nesting_depth: 1\nmagic-numbers:\n  enabled: false\n", "cmd": rng.choice(["nesting", "magic-numbers"]),
                          "targets": ["src"], "id": "cli:empty-explicit-config:%s:%d" % (level, j), "n": 24,
                          "pre": ["--config", cfgname] if level == "group" else [], "post": ["--config", cfgname] if level == "cmd" else []})
    # same comparison for projects that live under specially named directories (decided per path, must not differ between modes)
    for j, parent in enumerate(["build", "dist", "venv", "node_modules", "pkg.egg-info", "tests", "plain"] if not ctx.quick else ["build", "node_modules", "tests"]):
        for n in (5, 20):
            proj = make_project(rng, n, "pp%d%d" % (j, n))
            for spelling in ("abs", "rel"):
                cli_cases.append({"files": proj, "config": CONFIG, "cmd": rng.choice(["magic-numbers", "nesting", "srp"]), "targets": rng.choice([["."], sorted(proj)]),
                                  "id": "cli:parent-%s:%s:n%d" % (parent, spelling, n), "n": n, "parent": parent, "spelling": spelling})
    outs = runner.pmap(cli_case, cli_cases, timeout=900, workers=6)
    for case, o in zip(cli_cases, outs):
        if not o.get("ok"):
            ctx.inconclusive_if(True, "cli case %s failed in harness: %s" % (case["id"], str(o)[:400]))
            continue
        v = o["value"]
        ctx.evaluations += 2
        rep = {"id": case["id"], "runs": [{"argv": v["seq"]["argv"]}, {"argv": v["par"]["argv"]}]}
        files = dict(case["files"], **{".thailint.yaml": case["config"]})
        if v["seq"]["exit"] != v["par"]["exit"]:
            key = "invalid-config-not-raised-in-parallel" if case["id"] == "cli:invalid-config" else "exit-differs"
            if v["seq"]["v"] and v["par"]["v"] is not None and v["seq"]["exit"] == 1 and v["par"]["exit"] == (1 if v["par"]["v"] else 0):
                a0, b0 = Counter(map(tuple, v["seq"]["v"])), Counter(map(tuple, v["par"]["v"]))
                k0 = classify(list((a0 - b0).elements()), list((b0 - a0).elements()))
                if k0.startswith("parallel-loses-cross-file"):
                    key = None  # the exit code follows from the lost findings, reported below under that key
            if key:
                ctx.discrepancy(key, "%s: sequential exit %s, --parallel exit %s" % (case["id"], v["seq"]["exit"], v["par"]["exit"]), rep, files)
        if v["seq"]["v"] is None or v["par"]["v"] is None:
            if (v["seq"]["v"] is None) != (v["par"]["v"] is None) and case["id"] != "cli:invalid-config":
                ctx.discrepancy("output-kind-differs", "%s: one run has no JSON document" % case["id"], rep, files)
            continue
        a, b = Counter(map(tuple, v["seq"]["v"])), Counter(map(tuple, v["par"]["v"]))
        if a:
            ctx.nontrivial([case["n"], case["cmd"], "cli"])
        ctx.count("cli_violations_compared", sum(a.values()))
        if a != b:
            only_seq, only_par = list((a - b).elements()), list((b - a).elements())
            ctx.discrepancy(classify(only_seq, only_par), "%s: %d only sequential (e.g. %r), %d only parallel (e.g. %r)" % (
                case["id"], len(only_seq), only_seq[:1], len(only_par), only_par[:1]), dict(rep, expected=only_seq[:5], observed=only_par[:5]), files)
    ctx.sample({"library_case": lib_cases[3]["id"], "files": sorted(lib_cases[3]["files"]), "workers": lib_cases[3]["workers"], "perms": perms})
    ctx.inconclusive_if(ctx.counters["lib_runs_parallel_path"] < 10, "parallel path taken fewer than 10 times")
    ctx.inconclusive_if(ctx.obs.get("max_pids_seen", 0) < 2, "never saw more than one worker pid")
    ctx.inconclusive_if(orders_forced < 5, "fewer than 5 distinct completion orders")
    # conformance sample (real console script)
    def conf(case):
        root = runner.new_dir("k")
        runner.write_tree(root, dict(case["files"], **{".thailint.yaml": case["config"]}))
        argv = [case["cmd"], "--format", "json", "--parallel"] + case["targets"]
        a, b = runner.cli(argv, root), runner.cli_real(argv, root)
        sa = sorted(map(str, a.violations() or []))
        sb = sorted(map(str, b.violations() or []))
        return {"same": (a.exit, sa) == (b.exit, sb), "a": a.exit, "b": b.exit, "err": b.err[-300:]}
    for r in runner.pmap(conf, cli_cases[:6], workers=3):
        ctx.count("conformance_runs")
        if not r.get("ok") or not r["value"]["same"]:
            ctx.inconclusive_if(True, "zygote and real CLI disagree under --parallel: %s" % str(r)[:400])
