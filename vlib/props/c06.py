"""C06 - exit code and text/JSON/SARIF renderings agree with the violations found.

Monitor: for one (command, inputs, config) the three --format runs are recorded at the process
boundary (exit status, stdout bytes); an offline checker extracts the violation multiset from each
rendering with independent parsers and compares them, validates JSON/SARIF well-formedness and the
exit-code law, and checks every usage-error class ends with exit 2.
"""
from __future__ import annotations

import json

from .. import runner
from ..gen import staircase, ctrl, triggers
from ..oracles import formats

import re

ANSI = re.compile(r"\x1b\[[0-9;]*m")
FORMATS = ("text", "json", "sarif")

HOSTILE_PY = '''class Données管理Manager:
    def compute(self, a, b):
        return a + b

    def double(self, a):
        return a * 2


def größe_𝓍(a, items):
    for i in items:
        if a:
            while a:
                if i:
                    for j in items:
                        work(j)


def pick(mode):
    if mode in ("fa\\"st", "it's", "back\\\\slash", "100%s", "\\x1b[31mred", "new\\nline"):
        return 1
    return 3735928559
'''
HOSTILE_PY2 = '''def pick_again(mode):
    if mode in ("fa\\"st", "it's", "back\\\\slash", "100%s", "\\x1b[31mred", "new\\nline"):
        return 1
    return 2
'''

HOSTILE_NAMES = ["with space.py", "quo'te.py", 'dq"uote.py', "ünï¢ode.py", "𝓍astral.py", "per%cent.py", "semi;colon.py",
                 "back\\slash.py", "co:lon.py", "tab\there.py"]
HOSTILE_NAMES_NONTEXT = ["new\nline.py", "bad\udcff.py", "esc\x1b[31m.py"]


def clean_files():
    return {"src/ok.py": '"""\nPurpose: nothing\n"""\n\nLIMIT = 10\n\n\ndef ident(value):\n    return value\n',
            "src/ok.ts": "// nothing\nexport const LIMIT = 10;\n"}


def make_cases(ctx):
    rng = ctx.rng()
    cases = []
    n_var = ctx.size(3, 30)
    for i in range(n_var):
        files = triggers.random_files(rng, tag="v%d" % i)
        # extra generated modules add many nesting / magic-number violations
        for j in range(rng.randint(0, 2)):
            funcs = [{"name": "g%d_%d_%d" % (i, j, k), "style": "func",
                      "block": ctrl.gen_chain(rng, ctrl.kinds_for("py"), rng.randint(3, 7))} for k in range(rng.randint(1, 5))]
            text, _ = ctrl.render("py", funcs, prefix="q%d%d" % (i, j))
            files["src/gen%d_%d.py" % (i, j)] = text
        for cmd in triggers.CMDS:
            targets = rng.choice([["."], ["src"], ["src/appv%d.py" % i], ["src/appv%d.py" % i, "src/otherv%d.py" % i, "src/corev%d.rs" % i],
                                  ["src/webv%d.ts" % i], [], ["src/corev%d.rs" % i, "src"]])
            cases.append({"kind": "lint", "files": files, "argv": [cmd], "targets": targets, "id": "trig%d:%s" % (i, cmd)})
    for cmd in triggers.CMDS:
        cases.append({"kind": "lint", "files": clean_files(), "argv": [cmd], "targets": ["."], "id": "clean:%s" % cmd, "expect_zero": True})
        cases.append({"kind": "lint", "files": {}, "argv": [cmd], "targets": ["."], "id": "empty:%s" % cmd, "expect_zero": True})
    # hostile content and names
    hostile_cmds = ["nesting", "srp", "stateless-class", "magic-numbers", "stringly-typed", "file-header", "dry", "file-placement"]
    for names, tag in ((HOSTILE_NAMES, "names"), (HOSTILE_NAMES_NONTEXT, "names-nontext")):
        files = {"pkg/" + n: HOSTILE_PY for n in names}
        files["pkg/second.py"] = HOSTILE_PY2
        files[".thailint.yaml"] = "dry:\n  enabled: true\n  min_duplicate_lines: 3\nfile-placement:\n  global_deny:\n    - pattern: \".*\\\\.py$\"\n      reason: \"nö py — “quoted” \\\\ 100%\"\n"
        for cmd in hostile_cmds:
            cases.append({"kind": "lint", "files": files, "argv": [cmd], "targets": ["."], "id": "hostile-%s:%s" % (tag, cmd),
                          "text_unparsable_names": tag == "names-nontext"})
        nodry = dict(files)
        nodry[".thailint.yaml"] = files[".thailint.yaml"].replace("enabled: true", "enabled: false")
        for cmd in hostile_cmds:
            cases.append({"kind": "lint", "files": nodry, "argv": [cmd], "targets": ["."], "id": "hostile-nodry-%s:%s" % (tag, cmd),
                          "text_unparsable_names": tag == "names-nontext"})
    simple = {"pkg/bad\udcff.py": "def f(a):\n    return a * 4217\n", "pkg/new\nline.py": "def g(a):\n    return a * 4218\n",
              "pkg/trunc_\udce2\udc82.py": "def t(a):\n    print(a)\n    return a * 4220\n",      # a euro sign missing its last byte
              "pkg/emoji_\udcf0\udc9f\udc98.py": "def e(a):\n    print(a)\n    return a * 4221\n",  # an emoji cut short
              "pkg/mixed_\udcff_\u00e9_\udce2\udc82\udcac_.py": "def m(a):\n    print(a)\n    return a * 4222\n",
              "pkg/ok.py": "def h(a):\n    print(a)\n    return a * 4219\n"}
    for cmd in ("magic-numbers", "improper-logging", "file-header"):
        cases.append({"kind": "lint", "files": simple, "argv": [cmd], "targets": ["."], "id": "surrogate-simple:%s" % cmd,
                      "text_unparsable_names": True})
    # unparsable sources: whatever is reported about them must still be well-formed in every rendering
    broken = {
        "bad/nul.py": 'def f(a):\n    s = "a\x00b"\n    return s * 4217\n',
        "bad/unclosed.py": "def f(a:\n    return a * 4217\n",
        "bad/indent.py": "def f(a):\n        x = 1\n    return x * 4217\n",
        "bad/tabs.py": "def f(a):\n\tif a:\n        return 1\n\treturn 4217\n",
        "bad/string.py": "def f(a):\n    return 'unterminated\n",
        "bad/parens.py": "x = " + "(" * 300 + "1" + ")" * 300 + "\n",
        "bad/latin1.py": b"def f(a):\n    return '\xe9\xff' * 4217\n",
        "bad/empty.py": "",
        "bad/only_bom.py": b"\xef\xbb\xbf",
        "bad/broken.ts": "export function f(a: number { return a * 4217;\n",
        "bad/nul.ts": "export function f(a: number) { return a * 4217; }\x00\n",
        "bad/broken.rs": "pub fn f(a: i32 -> i32 { a * 4217\n",
        "bad/ok.py": "def ok(a):\n    print(a)\n    return a * 4219\n",
    }
    for cmd in triggers.CMDS:
        cases.append({"kind": "lint", "files": broken, "argv": [cmd], "targets": ["."], "id": "unparsable:%s" % cmd})
    # every kind of lazy-ignores finding (unjustified suppressions of each pattern, an orphaned header entry, an unjustified test skip), py and ts
    lazy = {"pkg/lazy.py": staircase.files()["st/lazy.py"],
            "pkg/lazy.ts": "/**\n * Purpose: lazy probe\n *\n * Suppressions:\n *   - no-explicit-any: an entry nothing uses (orphaned)\n */\n\n// @ts-ignore\nconst a: number = legacy();\n"
                           "// eslint-disable-next-line no-console\nconsole.log(a);\n"}
    for cmd in triggers.CMDS:
        cases.append({"kind": "lint", "files": lazy, "argv": [cmd], "targets": ["."], "id": "lazy:%s" % cmd})
    # option side effects must not leak into the rendering: dry --clear-cache with and without an on-disk cache left by an earlier run
    for tag, extra in (("with-cache-file", {".thailint-cache/dry.db": b"SQLite format 3\x00" + b"\x00" * 64}), ("no-cache-file", {})):
        cases.append({"kind": "lint", "files": dict(triggers.files("cc"), **extra), "argv": ["dry", "--clear-cache"], "targets": ["."], "id": "dry-clear-cache:%s" % tag})
    # DRY with many locations (long message)
    many = {}
    body = "".join("    v%d = a + %d\n" % (k, k) for k in range(6))
    for k in range(ctx.size(12, 50)):
        many["m/f%02d.py" % k] = "def fn%d(a):\n%s    return v0 + %d\n" % (k, body, k)
    many[".thailint.yaml"] = "dry:\n  enabled: true\n  min_duplicate_lines: 3\n"
    cases.append({"kind": "lint", "files": many, "argv": ["dry"], "targets": ["."], "id": "dry-many"})
    # usage errors: every class must end in exit 2 for every format
    base = triggers.files("u")
    bad_yaml = dict(base)
    bad_yaml[".thailint.yaml"] = "nesting:\n  max_nesting_depth: [unclosed\n"
    bad_json = {k: v for k, v in base.items() if k != ".thailint.yaml"}
    bad_json[".thailint.json"] = '{"nesting": {"max_nesting_depth": 3,, }'
    usage = [
        ("missing-path", base, [], ["nesting"], ["no_such_dir"]),
        ("missing-path-file", base, [], ["magic-numbers"], ["src/nope.py"]),
        ("missing-path-among", base, [], ["srp"], ["src", "no_such_dir"]),
        ("missing-config", base, [], ["nesting", "--config", "nope.yaml"], ["."]),
        ("missing-config-group", base, ["--config", "nope.yaml"], ["nesting"], ["."]),
        ("malformed-yaml", bad_yaml, [], ["nesting"], ["."]),
        ("malformed-json", bad_json, [], ["nesting"], ["."]),
        ("malformed-yaml-explicit", dict(base, **{"bad.yaml": "a: [1,\n"}), [], ["magic-numbers", "--config", "bad.yaml"], ["."]),
        # a configuration path that exists but is no file; a missing file next to the other option that can carry settings
        ("config-is-directory", dict(base, **{"confdir/keep.txt": "x\n"}), [], ["nesting", "--config", "confdir"], ["."]),
        ("config-is-directory-named-yaml", dict(base, **{"conf.yaml/keep.txt": "x\n"}), [], ["magic-numbers", "--config", "conf.yaml"], ["."]),
        ("config-is-directory-group", dict(base, **{"confdir/keep.txt": "x\n"}), ["--config", "confdir"], ["srp"], ["."]),
        ("config-is-directory-dry", dict(base, **{"confdir/keep.txt": "x\n"}), [], ["dry", "--config", "confdir"], ["."]),
        ("config-is-directory-file-placement", dict(base, **{"confdir/keep.txt": "x\n"}), [], ["file-placement", "--config", "confdir"], ["."]),
        ("missing-config-beside-rules", base, [], ["file-placement", "--rules", "{}", "--config", "nope.yaml"], ["."]),
        ("missing-config-group-with-project-root", base, ["--config", "nope.yaml", "--project-root", "."], ["nesting"], ["."]),
        ("missing-config-with-project-root", base, ["--project-root", "."], ["nesting", "--config", "nope.yaml"], ["."]),
        # text that is malformed JSON but happens to be well-formed YAML flow style (a trailing comma): a *.json file is JSON for every command
        ("malformed-json-explicit", dict(base, **{"bad.json": '{"nesting": {"max_nesting_depth": 3,},}'}), [], ["nesting", "--config", "bad.json"], ["."]),
        ("malformed-json-explicit-dry", dict(base, **{"bad.json": '{"dry": {"min_duplicate_lines": 3,},}'}), [], ["dry", "--config", "bad.json"], ["."]),
        ("malformed-json-explicit-file-placement", dict(base, **{"bad.json": '{"file-placement": {"global_deny": [],},}'}), [], ["file-placement", "--config", "bad.json"], ["."]),
        ("malformed-json-group", dict(base, **{"bad.json": '{"nesting": {"max_nesting_depth": 3,},}'}), ["--config", "bad.json"], ["srp"], ["."]),
        ("yaml-list-config-dry", dict(base, **{"list.yaml": "- a\n- b\n"}), [], ["dry", "--config", "list.yaml"], ["."]),
        ("yaml-list-config", dict(base, **{"list.yaml": "- a\n- b\n"}), [], ["nesting", "--config", "list.yaml"], ["."]),
        ("bad-option-value", base, [], ["nesting", "--max-depth", "x"], ["."]),
        ("unknown-option", base, [], ["srp", "--bogus"], ["."]),
        ("zero-max-methods", base, [], ["srp", "--max-methods", "0"], ["."]),
        ("zero-max-loc", base, [], ["srp", "--max-loc", "0"], ["."]),
        ("zero-max-methods-and-loc", base, [], ["srp", "--max-methods", "0", "--max-loc", "0"], ["."]),
        ("zero-min-lines", base, [], ["dry", "--min-lines", "0"], ["."]),
        ("zero-min-continues", base, [], ["pipeline", "--min-continues", "0"], ["."]),
        ("zero-max-depth", base, [], ["nesting", "--max-depth", "0"], ["."]),
        ("negative-max-depth", base, [], ["nesting", "--max-depth", "-2"], ["."]),
        ("negative-max-loc", base, [], ["srp", "--max-loc", "-5"], ["."]),
        ("unknown-format", base, [], ["dry", "--format", "xml"], ["."]),
        ("bad-rules-json", base, [], ["file-placement", "--rules", "{bad"], ["."]),
        ("project-root-missing", base, ["--project-root", "no_such_root"], ["nesting"], ["."]),
        ("project-root-is-file", base, ["--project-root", "src/appu.py"], ["nesting"], ["."]),
        ("unknown-command", base, [], ["no-such-linter"], ["."]),
    ]
    # malformed configuration values: a pattern that is no regular expression, wherever file-placement accepts one and however the
    # configuration reaches it; a threshold outside its domain, in the section or in a per-language block
    bad_re = "[invalid(regex"
    deny = [{"pattern": bad_re, "reason": "x"}]
    fp_positions = {
        "first-rule-allow": {"directories": {"src": {"allow": [bad_re]}}},
        "deny-only-rule": {"directories": {"src": {"deny": deny}}},
        "deny-of-later-rule": {"directories": {"src": {"allow": [".*"]}, "lib": {"deny": deny}}},
        "allow-after-deny-only-rule": {"directories": {"src": {"deny": [{"pattern": "zzz", "reason": "x"}]}, "lib": {"allow": [bad_re]}}},
        "deny-after-deny-only-rule": {"directories": {"tools": {"deny": [{"pattern": "zzz", "reason": "x"}]}, "src": {"deny": deny}}},
        "global-patterns-deny-only": {"global_patterns": {"deny": deny}},
        "global-patterns-deny-after-rules": {"directories": {"src": {"deny": [{"pattern": "zzz", "reason": "x"}]}}, "global_patterns": {"deny": deny}},
        "global-patterns-allow": {"global_patterns": {"allow": [bad_re]}},
        "global-deny": {"global_deny": deny},
        "global-deny-after-deny-only-rule": {"directories": {"src": {"deny": [{"pattern": "zzz", "reason": "x"}]}}, "global_deny": deny},
        "rule-for-absent-directory": {"directories": {"nowhere": {"deny": deny}}},
    }
    noyaml = {k: v for k, v in base.items() if k != ".thailint.yaml"}
    for pos, cfg in sorted(fp_positions.items()):
        doc = json.dumps({"file-placement": cfg})
        usage.append(("invalid-regex:%s:project-config" % pos, dict(noyaml, **{".thailint.json": doc}), [], ["file-placement"], ["."]))
        usage.append(("invalid-regex:%s:explicit-config" % pos, dict(base, **{"fp.json": doc}), [], ["file-placement", "--config", "fp.json"], ["."]))
        # (no project-level file-placement section beside --rules: which of the two wins is outside this property)
        usage.append(("invalid-regex:%s:rules-option" % pos, noyaml, [], ["file-placement", "--rules", json.dumps(cfg)], ["."]))
    for cmd, sec, key, val in [("nesting", "nesting", "max_nesting_depth", 0), ("nesting", "nesting", "max_nesting_depth", -3), ("srp", "srp", "max_methods", 0),
                               ("srp", "srp", "max_loc", -1), ("dry", "dry", "min_duplicate_lines", 0), ("stringly-typed", "stringly-typed", "min_occurrences", 0),
                               ("pipeline", "collection-pipeline", "min_continues", 0)]:
        usage.append(("out-of-domain:%s.%s=%s" % (sec, key, val), dict(noyaml, **{".thailint.yaml": "%s:\n  enabled: true\n  %s: %s\n" % (sec, key, val)}), [], [cmd], ["."]))
        if cmd in ("nesting", "srp"):
            usage.append(("out-of-domain:%s.python.%s=%s" % (sec, key, val), dict(noyaml, **{".thailint.yaml": "%s:\n  python:\n    %s: %s\n" % (sec, key, val)}), [], [cmd], ["."]))
    # a threshold that is no number at all (text, list): no file can be judged with it
    for cmd, sec, key in [("nesting", "nesting", "max_nesting_depth"), ("srp", "srp", "max_methods"), ("srp", "srp", "max_loc"), ("magic-numbers", "magic-numbers", "max_small_integer"),
                          ("dry", "dry", "min_duplicate_lines"), ("dry", "dry", "min_occurrences"), ("stringly-typed", "stringly-typed", "min_occurrences"),
                          ("stringly-typed", "stringly-typed", "min_values_for_enum"), ("pipeline", "collection-pipeline", "min_continues"),
                          ("stateless-class", "stateless-class", "min_methods"), ("method-property", "method-property", "max_body_statements"),
                          ("magic-numbers", "magic-numbers", "allowed_numbers")]:
        # (a key without a value - null - is the subject of run_empty_keys: refused or treated as absent)
        for label, val in (("text", "abc"), ("list", [1])) if key != "allowed_numbers" else (("scalar", 5),):
            usage.append(("non-numeric-threshold:%s.%s:%s" % (sec, key, label), dict(noyaml, **{".thailint.json": json.dumps({sec: {"enabled": True, key: val}})}), [], [cmd], ["."]))
    for name, files, pre, argv, targets in usage:
        cases.append({"kind": "usage", "files": files, "pre": pre, "argv": argv, "targets": targets, "id": "usage:" + name})
    return cases


def exec_case(case):
    d = runner.new_dir("f")
    runner.write_tree(d, case["files"])
    runs = {}
    for fmt in FORMATS:
        argv = list(case.get("pre", [])) + list(case["argv"])
        if not (case["kind"] == "usage" and "--format" in argv):
            argv += ["--format", fmt]
        argv += case["targets"]
        res = runner.cli(argv, d)
        runs[fmt] = {"exit": res.exit, "out": res.out, "err": ANSI.sub("", res.err)[-8000:], "utf8": res["out_bytes_utf8_ok"], "argv": argv,
                     "signal": res["signal"], "timeout": res["timeout"], "swallowed": len(res["swallowed"])}
    return runs


def check_case(ctx, case, runs):
    cid = case["id"]
    rep = {"id": cid, "runs": [{"argv": runs[f]["argv"]} for f in FORMATS]}
    files = case["files"]

    def bad(key, what):
        ctx.discrepancy(key, "%s: %s" % (cid, what), dict(rep, observed={f: [runs[f]["exit"], runs[f]["out"][:300]] for f in FORMATS}), files)

    ctx.evaluations += 3
    exits = {f: runs[f]["exit"] for f in FORMATS}
    for f in FORMATS:
        if runs[f]["timeout"] or runs[f]["signal"]:
            ctx.inconclusive_if(True, "%s %s: signal/timeout in harness run" % (cid, f))
            return
        if "Traceback (most recent call last)" in runs[f]["err"] and exits[f] != 2:
            # a rule failure the orchestrator logged ("Rule <id> failed on <file>" + traceback on stderr) is C11's subject, not a broken rendering:
            # every traceback must be such a log record, anything else is a crash
            n_tb = runs[f]["err"].count("Traceback (most recent call last)")
            n_logged = len(re.findall(r"^Rule \S+ failed on ", runs[f]["err"], re.M)) + len(re.findall(r"^Worker error processing file", runs[f]["err"], re.M))
            if n_logged >= n_tb:
                ctx.count("logged_rule_failures_on_stderr", n_tb)
            else:
                bad("traceback", "format %s printed a traceback (exit %s): %s" % (f, exits[f], runs[f]["err"][-200:]))
    if case["kind"] == "usage":
        ctx.count("usage_cases")
        ctx.nontrivial(["usage", cid])
        for f in FORMATS:
            if exits[f] != 2:
                bad("usage-exit:" + cid.split(":", 1)[1], "format %s: exit %s instead of 2 (stderr: %s)" % (f, exits[f], runs[f]["err"][-200:].strip()))
        return
    if len(set(exits.values())) != 1:
        bad("exit-differs-between-formats", "exit codes %s" % exits)
    for f in FORMATS:
        if exits[f] not in (0, 1, 2):
            bad("exit-range", "format %s exit %s" % (f, exits[f]))
        if not runs[f]["utf8"]:
            bad("not-utf8:" + f, "stdout of --format %s is not valid UTF-8" % f)
    if 2 in exits.values():
        if "UnicodeEncodeError" in runs["json"]["err"] and "surrogates not allowed" in runs["json"]["err"] \
                and any(formats.has_lone_surrogate(n) for n in files) and ("dry/cache.py" in runs["json"]["err"] or "stringly_typed/storage.py" in runs["json"]["err"]):
            bad("surrogate-path-sqlite-exit-2", "a file whose name is not valid UTF-8 makes the command exit 2 "
                "(UnicodeEncodeError from the DRY / stringly-typed sqlite storage is a ValueError and is re-raised as a configuration error)")
            return
        bad("lint-run-exit-2", "a lint run that can be performed ended with exit 2: %s" % runs["json"]["err"][-300:])
        return
    jrecs, jprob = formats.parse_json(runs["json"]["out"])
    srecs, sprob = formats.parse_sarif(runs["sarif"]["out"])
    trecs, tprob, tamb = formats.parse_text(runs["text"]["out"])
    for p in jprob:
        bad("json-malformed", p)
    for p in sprob:
        bad("sarif-malformed:" + p.split(" ")[1] if len(p.split(" ")) > 1 else "sarif-malformed", p)
    for p in tprob:
        bad("text-malformed", p)
    if jrecs is None or srecs is None or trecs is None:
        return
    n = sum(jrecs.values())
    ctx.count("violations_compared", n)
    ctx.count("runs_with_%s" % ("0" if n == 0 else "1" if n == 1 else "many"))
    ctx.count("cmd:" + case["argv"][0])
    if n:
        ctx.nontrivial([case["argv"][0], sorted(set(k[0] for k in jrecs)), min(n, 5), case["id"].split(":")[0].rstrip("0123456789")])
    for f, cnt in (("json", n), ("sarif", sum(srecs.values())), ("text", sum(trecs.values()) if not tamb else None)):
        if cnt is None:
            continue
        if (exits[f] == 0) != (cnt == 0):
            bad("exit-vs-count", "format %s: exit %s with %d violations" % (f, exits[f], cnt))
    if case.get("expect_zero") and n:
        ctx.count("clean_case_has_violations")
    # JSON vs SARIF: same (rule, file, line, column, message)
    if jrecs != srecs:
        only_j = list((jrecs - srecs).elements())[:3]
        only_s = list((srecs - jrecs).elements())[:3]
        surrogate = any(formats.has_lone_surrogate(str(x)) for k in only_s for x in k)
        if surrogate and all("�" in "".join(map(str, k)) for k in only_j):
            bad("sarif-lone-surrogate", "SARIF names a path with a lone surrogate where JSON/text print U+FFFD: json %r sarif %r" % (only_j[:1], only_s[:1]))
        else:
            bad("json-vs-sarif", "only in json %r; only in sarif %r" % (only_j, only_s))
    # JSON vs text
    if tamb or case.get("text_unparsable_names"):
        ctx.count("text_not_judged_multiline")
    else:
        exp = {}
        from collections import Counter
        exp = Counter()
        for (rule, fp, line, col, msg), c in jrecs.items():
            exp[(rule, formats.expected_location(fp, line, col), msg)] += c
        if exp != trecs:
            bad("json-vs-text", "only in json %r; only in text %r" % (list((exp - trecs).elements())[:3], list((trecs - exp).elements())[:3]))
    if len(ctx.samples) < 3 and n:
        ctx.sample({"case": cid, "argv": runs["json"]["argv"], "exit": exits, "json_records": n,
                    "first": [list(k) for k in list(jrecs)[:2]]})


def run(ctx):
    ctx.rule = ("case = (command, targets, project, config) executed once per --format; distinct non-trivial = "
                "(command, rule ids seen, min(#violations,5), workload family) with >= 1 violation, plus each usage-error class")
    ctx.assumptions = ["three runs of one case see the same engine result (determinism is C08's subject)",
                       "text form is 'path[:line][:column]' + '[SEVERITY] rule: message'; text is not judged when a message or path contains a newline",
                       "independent extractors in vlib/oracles/formats.py; SARIF validated structurally (no JSON-schema file offline)"]
    cases = make_cases(ctx)
    outs = runner.pmap(exec_case, cases, timeout=300)
    for case, o in zip(cases, outs):
        if not o.get("ok"):
            ctx.inconclusive_if(True, "case %s failed in harness: %s" % (case["id"], str(o)[:300]))
            continue
        check_case(ctx, case, o["value"])
    run_empty_keys(ctx)
    run_console_encodings(ctx)
    run_json_twins(ctx)
    ctx.obs["commands_with_violations"] = sorted(k[4:] for k in ctx.counters if k.startswith("cmd:"))
    missing = [c for c in triggers.CMDS if "cmd:" + c not in ctx.counters]
    ctx.inconclusive_if(ctx.counters["runs_with_many"] < 10 or ctx.counters["runs_with_0"] < 10, "too few many/zero-violation runs observed")
    conformance(ctx, [c for c in cases if c["kind"] == "lint"][:8] + [c for c in cases if c["kind"] == "usage"])


def console_encoding_job(arg):
    files, cmd, enc, fmt = arg
    d = runner.new_dir("c")
    runner.write_tree(d, files)
    ref = runner.cli_real([cmd, "--format", "json", "."], d)
    vs = ref.violations()
    r = runner.cli_real([cmd, "--format", fmt, "."], d, env={"PYTHONIOENCODING": enc, "PYTHONUTF8": "0"})
    out = {"ref_exit": ref.exit, "ref_n": None if vs is None else len(vs), "exit": r.exit, "out_len": len(r.out), "err": r.err[-200:]}
    if fmt in ("json", "sarif"):
        # the rendering itself: valid UTF-8 JSON naming the same findings, whatever the console can encode
        out["utf8"] = bool(r["out_bytes_utf8_ok"])
        try:
            doc = json.loads(r.out) if out["utf8"] else None
        except ValueError as e:
            doc, out["json_err"] = None, str(e)[:120]
        out["parsed"] = isinstance(doc, dict)
        key = lambda rows: sorted([str(x[0]), str(x[1]), x[2], str(x[3])] for x in rows)  # noqa: E731
        if isinstance(doc, dict) and fmt == "json" and isinstance(doc.get("violations"), list):
            out["same"] = key((v.get("rule_id"), v.get("file_path"), v.get("line"), v.get("message")) for v in doc["violations"]) == \
                key((v.get("rule_id"), v.get("file_path"), v.get("line"), v.get("message")) for v in (vs or []))
        elif isinstance(doc, dict) and fmt == "sarif":
            try:
                rows = [(x["ruleId"], x["locations"][0]["physicalLocation"]["artifactLocation"]["uri"], x["locations"][0]["physicalLocation"]["region"]["startLine"], x["message"]["text"])
                        for run in doc["runs"] for x in run["results"]]
                out["same"] = key(rows) == key((v.get("rule_id"), v.get("file_path"), v.get("line"), v.get("message")) for v in (vs or []))
            except (KeyError, IndexError, TypeError) as e:
                out["same"], out["json_err"] = False, "sarif shape: %r" % (e,)
        out["head"] = r.out[:160]
    return out


def json_twin_job(arg):
    files, cmd, sec, body = arg
    out = {}
    for label, name, text in (("yaml", "c.yaml", json.dumps({sec: body})), ("json-tabs", "c.json", json.dumps({sec: body, "x-note": 1e16}, indent="\t")),
                              ("json-compact", "c2.json", json.dumps({sec: body}, separators=(",", ":")))):
        d = runner.new_dir("j")
        runner.write_tree(d, dict(files, **{name: text}))
        r = runner.cli([cmd, "--config", name, "--format", "json", "."], d)
        vs = r.violations()
        out[label] = {"exit": r.exit, "v": None if vs is None else sorted([v["rule_id"], v["file_path"], v["line"], v["column"], v["message"]] for v in vs), "err": r.err[-200:]}
    return out


def run_json_twins(ctx):
    """A valid configuration is a valid configuration in either documented format: the same settings handed over with --config as YAML, as
    tab-indented JSON and as compact JSON give the same exit code and findings for every command that takes --config."""
    from ..gen import staircase

    proj = {k: v for k, v in dict(staircase.files(), **triggers.files("j")).items() if not k.startswith(".thailint")}
    cases = [("nesting", "nesting", {"enabled": True, "max_nesting_depth": 2}), ("srp", "srp", {"enabled": True, "max_methods": 2}),
             ("magic-numbers", "magic-numbers", {"enabled": True, "allowed_numbers": [0, 1]}), ("dry", "dry", {"enabled": True, "min_duplicate_lines": 3, "storage_mode": "memory"}),
             ("file-placement", "file-placement", {"global_deny": [{"pattern": ".*\\.py$", "reason": "none here"}]}), ("stringly-typed", "stringly-typed", {"enabled": True, "min_occurrences": 2}),
             ("method-property", "method-property", {"enabled": True}), ("pipeline", "collection-pipeline", {"enabled": True, "min_continues": 1})]
    jobs = [(proj, c, sec, body) for c, sec, body in cases]
    for (fs, c, sec, body), o in zip(jobs, runner.pmap(json_twin_job, jobs, timeout=600)):
        if not o.get("ok"):
            ctx.inconclusive_if(True, "json-twin job %s failed in harness: %s" % (c, str(o)[:300]))
            continue
        v = o["value"]
        ref = v["yaml"]
        if ref["v"] is None or ref["exit"] not in (0, 1):
            ctx.inconclusive_if(True, "json-twin reference run of %s failed: exit %s %s" % (c, ref["exit"], ref["err"]))
            continue
        for label in ("json-tabs", "json-compact"):
            ctx.evaluations += 1
            ctx.count("json_twin_runs")
            ctx.nontrivial(["json-twin", c, label, ref["exit"]])
            if v[label]["exit"] != ref["exit"] or v[label]["v"] != ref["v"]:
                ctx.discrepancy("valid-json-config-differs:%s:%s" % (c, label), "`%s --config <%s>`: exit %s with %s findings, the same settings as YAML: exit %s with %d findings (stderr: %s)" % (
                    c, label, v[label]["exit"], None if v[label]["v"] is None else len(v[label]["v"]), ref["exit"], len(ref["v"]), v[label]["err"][-150:]),
                    {"argv": [c, "--config", "c.json", "--format", "json", "."], "config": {sec: body}, "carrier": label}, fs)


def run_console_encodings(ctx):
    """The exit-code law under a console encoding that cannot represent every character of the report (the check mark of a clean text run,
    a non-ASCII path or message): real console script, PYTHONIOENCODING = latin-1 / ascii / cp1252."""
    clean = {"src/clean.py": "def ok(a):\n    return a\n"}
    hostile = {"src/caf\u00e9 \u751f\u6210.py": "def größe(a):\n    print(a)\n    return a * 4711\n", "src/plain.py": "def p(a):\n    print(a)\n    return a * 4712\n"}
    jobs = [(files, cmd, enc, fmt) for files, cmd in ((clean, "nesting"), (clean, "magic-numbers"), (hostile, "magic-numbers"), (hostile, "improper-logging"))
            for enc in ("latin-1", "ascii", "cp1252") for fmt in ("text", "json", "sarif")]
    for (files, cmd, enc, fmt), o in zip(jobs, runner.pmap(console_encoding_job, jobs, timeout=300)):
        if not o.get("ok"):
            ctx.inconclusive_if(True, "console-encoding job failed in harness: %s" % str(o)[:200])
            continue
        v = o["value"]
        ctx.evaluations += 1
        ctx.count("console_encoding_runs")
        ctx.nontrivial(["console-encoding", cmd, enc, fmt, "clean" if files is clean else "non-ascii"])
        if v["ref_n"] is None or v["ref_exit"] not in (0, 1):
            ctx.inconclusive_if(True, "console-encoding reference run failed: exit %s" % v["ref_exit"])
            continue
        if v["exit"] != v["ref_exit"]:
            ctx.discrepancy("exit-code-under-console-encoding:%s" % ("clean-run" if files is clean else "non-ascii-report"), "`%s --format %s .` with PYTHONIOENCODING=%s: exit %s, the same run with a UTF-8 console: exit %s with %d violation(s) (stderr: %s)" % (
                cmd, fmt, enc, v["exit"], v["ref_exit"], v["ref_n"], v["err"][-120:]), {"argv": [cmd, "--format", fmt, "."], "env": {"PYTHONIOENCODING": enc}}, files)
        if fmt in ("json", "sarif"):
            ctx.count("console_encoding_documents_parsed")
            if not (v.get("utf8") and v.get("parsed") and v.get("same")):
                ctx.discrepancy("rendering-malformed-under-console-encoding:%s" % fmt, "`%s --format %s .` with PYTHONIOENCODING=%s: stdout valid UTF-8=%s, parses as a JSON document=%s, names the findings of the UTF-8 run=%s (%s) - starts %r" % (
                    cmd, fmt, enc, v.get("utf8"), v.get("parsed"), v.get("same"), v.get("json_err", ""), v.get("head", "")[:100]), {"argv": [cmd, "--format", fmt, "."], "env": {"PYTHONIOENCODING": enc}}, files)


def empty_key_job(arg):
    files, cmd, sec, key, carrier = arg
    out = {}
    for label in ("absent", "empty"):
        body = {"enabled": True}
        if sec == "dry":
            body["min_duplicate_lines"] = 3
        if label == "empty":
            body[key] = None
        fs = dict(files)
        if carrier == "yaml":
            # (written by hand: `key:` followed by nothing, the way a list with all its items commented out looks)
            fs[".thailint.yaml"] = "%s:\n%s" % (sec, "".join("  %s:%s\n" % (k, "" if v is None else " " + json.dumps(v)) for k, v in body.items()))
        else:
            fs[".thailint.json"] = json.dumps({sec: body})
        d = runner.new_dir("n")
        runner.write_tree(d, fs)
        r = runner.cli([cmd, "--format", "json", "."], d)
        vs = r.violations()
        out[label] = {"exit": r.exit, "v": None if vs is None else sorted([v["rule_id"], v["file_path"], v["line"], v["column"], v["message"]] for v in vs),
                      "swallowed": sorted({str(x.get("exc"))[:80] for x in r["swallowed"]})[:3], "err": r.err[-200:]}
    return out


def run_empty_keys(ctx):
    """A documented key written WITHOUT a value (null): the run either refuses the configuration (exit 2) or behaves as if the key were absent -
    never a 'successful' run whose rules failed on every file."""
    from ..gen import staircase

    proj = dict(staircase.files(), **{k: v for k, v in triggers.files("e").items() if k != ".thailint.yaml"})
    keys = sorted({(c, sec, key.split(".")[0]) for (c, sec, key, _v) in staircase.SWEEPS} |
                  {(c, staircase.SECTIONS[c], lang) for c in ("nesting", "srp", "magic-numbers", "dry") for lang in ("python", "typescript", "javascript", "rust")} |
                  {(c, staircase.SECTIONS[c], "ignore") for c in staircase.SECTIONS if c not in ("file-placement", "lazy-ignores", "string-concat-loop", "regex-in-loop")} |
                  {("dry", "dry", "filters"), ("file-header", "file-header", "languages")})
    if ctx.quick:
        keys = keys[ctx.seed % 3::3]
    jobs = [(proj, c, sec, key, ("yaml", "json")[i % 2]) for i, (c, sec, key) in enumerate(keys)]
    for (fs, c, sec, key, carrier), o in zip(jobs, runner.pmap(empty_key_job, jobs, timeout=600)):
        if not o.get("ok"):
            ctx.inconclusive_if(True, "empty-key job %s.%s failed in harness: %s" % (sec, key, str(o)[:300]))
            continue
        v = o["value"]
        ctx.evaluations += 2
        ctx.count("empty_key_cases")
        ctx.nontrivial(["empty-key", sec, key, carrier])
        a, e = v["absent"], v["empty"]
        rep = {"argv": [c, "--format", "json", "."], "config": {sec: {key: None}}, "carrier": carrier}
        shown = dict(fs, **{".thailint.yaml": "%s:\n  enabled: true\n  %s:\n" % (sec, key)})
        if a["v"] is None or a["exit"] not in (0, 1):
            ctx.inconclusive_if(True, "empty-key reference run of %s failed: exit %s %s" % (c, a["exit"], a["err"]))
            continue
        if e["exit"] == 2:
            ctx.count("empty_key_refused")
            continue
        if e["swallowed"] or e["v"] != a["v"] or e["exit"] != a["exit"]:
            ctx.discrepancy("empty-key:%s.%s" % (sec, key), "`%s` with `%s: {%s: }` (key without a value, %s): exit %s with %s violation(s) and swallowed rule failures %r; without the key: exit %s with %d" % (
                c, sec, key, carrier, e["exit"], "no JSON" if e["v"] is None else len(e["v"]), e["swallowed"], a["exit"], len(a["v"])), rep, shown)


def conformance(ctx, cases):
    def one(case):
        d = runner.new_dir("k")
        runner.write_tree(d, case["files"])
        argv = list(case.get("pre", [])) + list(case["argv"]) + (["--format", "json"] if "--format" not in case["argv"] else []) + case["targets"]
        a = runner.cli(argv, d)
        b = runner.cli_real(argv, d)
        return {"same": (a.exit, a.out) == (b.exit, b.out), "argv": argv, "a": [a.exit, a.out[:200]], "b": [b.exit, b.out[:200], b.err[-200:]]}
    for r in runner.pmap(one, cases):
        ctx.count("conformance_runs")
        if not r.get("ok") or not r["value"]["same"]:
            ctx.inconclusive_if(True, "zygote and real CLI disagree: %s" % str(r)[:500])
