"""C13 - meaning-preserving edits leave the findings unchanged up to line shift.

Monitor: boundary trace of base run and edited run (sequence of 1-4 edits from the allowed family) of the relevant
commands; metamorphic oracle: equal multisets of (rule, file, mapped line, message*) - columns too when the edit does not
touch indentation or the first line.
"""
from __future__ import annotations

import os
import re
from collections import Counter

import yaml

from .. import runner
from ..gen import classes, ctrl, lits, triggers
from . import c03, c17

HEADER_SENSITIVE = {"file-header", "lazy-ignores"}
CM = {"py": "#", "ts": "//", "js": "//", "rs": "//"}
NUM = re.compile(r"\d+")
RENAMES = [("work_", "call_"), ("val_", "tmp_"), ("cond_", "gate_"), ("it_", "el_"), ("idx_", "pos_"), ("consume", "swallow"), ("compute_", "derive_"), ("offset_", "adjust_")]


# ----------------------------------------------------------------------------- edits: text -> (text, line map)
def e_insert(rng, text, lang, protect_top=0):
    lines = text.split("\n")
    n = len(lines)
    lo = max(2, protect_top + 1)
    inserts = rng.sample(range(lo, n + 1), min(rng.randint(1, 6), max(0, n - lo + 1)))
    # boundaries where an extra sibling matters most to a tree walker: right after a return / break / continue, right before a closing brace
    after_jump = [i + 1 for i, ln in enumerate(lines, 1) if lo <= i + 1 <= n and re.match(r"\s*(return|break|continue)\b", ln)]
    before_brace = [i + 1 for i, ln in enumerate(lines, 1) if lo <= i + 1 <= n and i < n and lines[i].strip().startswith("}")]
    if rng.random() < 0.75:
        inserts += [i for i in after_jump if rng.random() < 0.35]  # each of them on its own: a file has few, and each is a distinct situation
        inserts += rng.sample(before_brace, min(len(before_brace), rng.randint(0, 2)))
    # a physical line that opens several blocks (compact layout): a line above AND below it - the function gets taller, not deeper
    dense = [i for i, ln in enumerate(lines, 1) if lo <= i <= n and ln.count("{") >= 2]
    for i in dense:
        if rng.random() < 0.7:
            inserts += [i, i + 1] if i + 1 <= n else [i]
    nonascii_first = rng.random() < 0.6
    if nonascii_first and lo <= n:
        inserts.append(lo)
    inserts = sorted(set(inserts))
    out, shift_at = [], []
    k = 0
    in_block = False  # inside a multi-line /* */ comment of the base file: nothing is inserted there (TS/JS block comments do not nest)
    for i, ln in enumerate(lines, 1):
        while k < len(inserts) and inserts[k] == i:
            if in_block:
                k += 1
                continue
            kind = rng.random()
            if not shift_at and nonascii_first:
                kind = 0.41  # the first inserted line is a comment with non-ASCII words: every later byte offset differs from its character offset by a new amount
            ind = re.match(r"\s*", ln).group(0)
            if kind >= 0.4 and lang != "py" and rng.random() < 0.3:
                out.append("%s/* note %d */" % (ind, rng.randint(100, 999)))  # a one-line block comment is a comment line too
            else:
                words = rng.choice(["note", "note", "r\u00e9sum\u00e9 des donn\u00e9es", "\u6570\u636e \u2192 \u00fcber", "caf\u00e9 \U0001f600",
                                    # ... and free to mention quotes, brackets and comment markers of any language
                                    "the \"\"\" marker opens a docstring", "it's \'\'\' quoted", "see /* this", "ends */ here", "a \" lone quote", "tick ` and ${x}", "hash # inside", "slashes // inside"])  # comment text is free text, not only ASCII
                if not shift_at and nonascii_first:
                    words = rng.choice(["r\u00e9sum\u00e9 des donn\u00e9es", "\u6570\u636e \u2192 \u00fcber", "caf\u00e9 \U0001f600"])
                    if rng.random() < 0.35:
                        # (an unbalanced string / comment opener of the file's own language, inside a comment, ahead of everything else)
                        words += {"py": " the \"\"\" marker opens a docstring"}.get(lang, " see /* this and ` that")
                out.append("" if kind < 0.25 else ind if kind < 0.4 else "%s%s %s %d" % (ind, CM[lang], words, rng.randint(100, 999)))
            shift_at.append(i)
            k += 1
        out.append(ln)
        if lang != "py":
            opened = ln.rfind("/*")
            if opened >= 0 and ln.find("*/", opened + 2) < 0:
                in_block = True
            elif in_block and "*/" in ln:
                in_block = False
    return "\n".join(out), (lambda l, s=tuple(shift_at): l + sum(1 for x in s if x <= l)), {"columns": True}


def e_trailing_ws(rng, text, lang, protect_top=0):
    lines = text.split("\n")
    picks = rng.sample(range(len(lines)), min(len(lines), rng.randint(1, 8)))
    picks += [i for i, ln in enumerate(lines) if "thailint: ignore" in ln and rng.random() < 0.5]  # an editor leaves blanks after a directive just as easily
    for i in sorted(set(picks)):
        if not lines[i].rstrip().endswith("\\") and i < len(lines) - 1:
            # blank lines become whitespace-only lines (just as meaning-preserving as trailing blanks after code)
            body, cr = (lines[i][:-1], "\r") if lines[i].endswith("\r") else (lines[i], "")
            lines[i] = body + rng.choice([" ", "  ", "\t", " \t ", "    "]) + cr
    return "\n".join(lines), (lambda l: l), {"columns": True}


def e_crlf(rng, text, lang, protect_top=0):
    return text.replace("\r\n", "\n").replace("\n", "\r\n"), (lambda l: l), {"columns": True}


def e_bom(rng, text, lang, protect_top=0):
    return ("﻿" + text) if not text.startswith("﻿") else text[1:], (lambda l: l), {"columns": "not-line-1"}


def e_append(rng, text, lang, protect_top=0):
    uid = rng.randint(10 ** 6, 10 ** 7)
    tail = {"py": "\n\ndef appended_%d(value):\n    return value\n", "ts": "\nfunction appended_%d(value: number): number {\n  return value;\n}\n",
            "js": "\nfunction appended_%d(value) {\n  return value;\n}\n", "rs": "\nfn appended_%d(value: i64) -> i64 {\n    value\n}\n"}[lang] % uid
    # the appended function is free to use the names of LOCAL variables of the functions above it for things of its own (a list, a number):
    # what a name means in one function says nothing about another function
    local = sorted(set(re.findall(r"^\s+(?:let |const |var )?([a-z_][a-z_0-9]{2,})\s*(?::\s*\w+)?\s*=\s*[^=]", text, re.M)) - {"self", "this", "return"})
    picks = rng.sample(local, min(len(local), 3)) if rng.random() < 0.6 else []
    if picks and lang in ("py", "ts", "js"):
        body = "".join({"py": "    %s = %s\n", "ts": "  let %s: any = %s;\n", "js": "  let %s = %s;\n"}[lang] % (nm, rng.choice(["[\"u%d\"]", "[\"u%d\", \"v\"]"]) % rng.randint(10 ** 6, 10 ** 7)) for nm in picks)  # (unique values: the same line appended to two files would be a real duplicate)
        tail = tail.replace("    return value\n", body + "    return value\n", 1) if lang == "py" else tail.replace("  return value;\n", body + "  return value;\n", 1)
    return (text if text.endswith("\n") else text + "\n") + tail, (lambda l: l), {"columns": True}


def e_rename(rng, text, lang, protect_top=0):
    pairs = rng.sample(RENAMES, rng.randint(1, 3))
    for a, b in pairs:
        text = re.sub(r"\b%s" % re.escape(a), b, text)
    return text, (lambda l: l), {"columns": False, "renamed": pairs}


def e_reindent(rng, text, lang, protect_top=0):
    """Consistent re-indentation: 4 -> 2 / 8 spaces (py, ts, js, rs), spaces -> tabs (brace languages and py)."""
    unit = None
    for ln in text.split("\n"):
        m = re.match(r"( +)\S", ln)
        if m:
            unit = len(m.group(1)) if unit is None else min(unit, len(m.group(1)))
    if not unit or "\t" in text:
        return text, (lambda l: l), {"columns": True}
    new = rng.choice(["  ", "        ", "\t", "   "])
    out = []
    for ln in text.split("\n"):
        m = re.match(r"( *)(.*)$", ln)
        lead, rest = m.group(1), m.group(2)
        if len(lead) % unit == 0:
            out.append(new * (len(lead) // unit) + rest)
        else:
            out.append(new * (len(lead) // unit) + " " * (len(lead) % unit) + rest)
    return "\n".join(out), (lambda l: l), {"columns": False}


EDITS = {"insert": e_insert, "trailing-ws": e_trailing_ws, "crlf": e_crlf, "bom": e_bom, "append": e_append, "rename": e_rename, "reindent": e_reindent}


# ----------------------------------------------------------------------------- bases
def gen_cqs(rng, idx):
    """Python and TypeScript functions/methods for the library-only `cqs` rule: mixed (reported), query-only, command-only, fluent (mixed but returning
    self/this: exempt) and constructor (exempt) - the rule has no CLI command, it is observed through the library API."""
    py, ts = ['"""Generated CQS module."""', ""], ["// Generated CQS module", ""]
    for k in range(rng.randint(2, 6)):
        cat = rng.choice(["mixed", "mixed", "query", "command"])
        py.append("def %s_%d_%d(a):" % (cat, idx, k))
        ts.append("function %s_%d_%d(a: number): void {" % (cat, idx, k))
        if cat in ("mixed", "query"):
            py.append("    data_%d = fetch_%d(a)" % (k, k))
            ts.append("  const data_%d = fetch_%d(a);" % (k, k))
            if rng.random() < 0.5:
                py.append("    more_%d = check_%d(data_%d)" % (k, k, k))
                ts.append("  const more_%d = check_%d(data_%d);" % (k, k, k))
        if cat in ("mixed", "command"):
            py.append("    save_%d(a)" % k)
            ts.append("  save_%d(a);" % k)
            if rng.random() < 0.5:
                py.append("    notify_%d(a)" % k)
                ts.append("  notify_%d(a);" % k)
        py += ["", ""]
        ts += ["}", ""]
    py.append("class Builder_%d:" % idx)
    ts.append("class Builder_%d {" % idx)
    py += ["    def __init__(self, a):", "        self.base = load_base(a)", "        register(self)", ""]
    for k in range(rng.randint(1, 4)):
        fluent = rng.random() < 0.7
        py += ["    def with_part_%d(self, a):" % k, "        part_%d = make_part(a)" % k, "        self.attach(part_%d)" % k] + (["        return self"] if fluent else []) + [""]
        ts += ["  withPart_%d(a: number)%s {" % (k, ": this" if fluent else ": void"), "    const part_%d = makePart(a);" % k, "    this.attach(part_%d);" % k] + (["    return this;"] if fluent else []) + ["  }", ""]
    ts.append("}")
    return "\n".join(py) + "\n", "\n".join(ts) + "\n"


def lib_cqs(d):
    """Runs in a forked child: everything the library API reports for rule `cqs` under d."""
    from src import Linter

    os.chdir(d)
    out = []
    for v in Linter(project_root=d).lint(d):
        if str(v.rule_id).startswith("cqs"):
            fp = str(v.file_path)
            out.append({"rule_id": v.rule_id, "file_path": os.path.relpath(fp, d) if os.path.isabs(fp) else os.path.normpath(fp), "line": v.line, "column": v.column, "message": v.message})
    return out


def make_base(rng, idx):
    kind = idx % 9
    if kind == 8:
        # statements broken over several lines: a comment or blank line may be inserted BETWEEN the lines of one statement
        def ts(tag):
            return ("export function build_%s(items: string[], mode: string): string {\n  let acc = \"\";\n  for (const i of items) {\n    acc +=\n      \"x\" + i;\n  }\n"
                    "  if (mode ===\n      \"fast\") {\n    return acc;\n  }\n  if (mode ===\n      \"slow\") {\n    return acc;\n  }\n  setMode_%d(\n    engine,\n    \"fast\"\n  );\n  setMode_%d(\n    engine,\n    \"slow\"\n  );\n"
                    "  return compute(\n    4711,\n    acc\n  );\n}\n") % (tag, idx, idx)

        def py(tag):
            return ("def build_%s(items, mode, engine):\n    acc = \"\"\n    for i in items:\n        acc += (\n            \"x\" + str(i)\n        )\n"
                    "    if (mode ==\n            \"fast\"):\n        return acc\n    if (mode ==\n            \"slow\"):\n        return acc\n    set_mode_%d(\n        engine,\n        \"fast\"\n    )\n    set_mode_%d(\n        engine,\n        \"slow\"\n    )\n"
                    "    return compute(\n        4711,\n        acc\n    )\n") % (tag, idx, idx)
        return {"idx": idx, "kind": kind, "files": {"pkg/ml%d_a.ts" % idx: ts("a"), "pkg/ml%d_b.ts" % idx: ts("b"), "pkg/ml%d_a.py" % idx: py("a"), "pkg/ml%d_b.py" % idx: py("b")},
                "cfg": {}, "cmds": ["perf", "stringly-typed", "magic-numbers"]}
    if kind == 7:
        # suppression comments of other tools (the subject of lazy-ignores), python and typescript, below a file header
        from ..gen import staircase
        st = staircase.files()
        py = st["st/lazy.py"] + "\n\ndef two_%d(a, b):\n    \"\"\"Docstring of two.\"\"\"\n    total = a + b  # noqa: E501\n    return total  # type: ignore[return-value]\n" % idx
        ts = "/**\n * Purpose: probe\n */\n\n" + st["st/extra.ts"].split("\n", 1)[1]
        return {"idx": idx, "kind": kind, "files": {"pkg/lz%d.py" % idx: py, "pkg/lz%d.ts" % idx: ts}, "cfg": {}, "cmds": ["lazy-ignores"]}
    if kind == 6:
        py, ts = gen_cqs(rng, idx)
        return {"idx": idx, "kind": kind, "files": {"pkg/q%d.py" % idx: py, "pkg/q%d.ts" % idx: ts}, "cfg": {}, "cmds": ["lib:cqs"]}
    files, cfg, cmds, names_matter = {}, {}, [], False
    if kind == 0:
        L = rng.randint(2, 4)
        for lang in ("py", "ts", "rs"):
            funcs = [{"name": "fn%d_%s_%d" % (idx, lang, j), "style": rng.choice(["func", "method"]),
                      # (brace languages: sometimes two body lines per physical line - a function may be deep without being tall)
                      "layout": rng.choice([None, None, "pairs", "body-line"]) if lang != "py" else None,
                      "block": ctrl.no_lone_if_in_else(ctrl.gen_chain(rng, ctrl.kinds_for(lang), rng.choice([L - 1, L, L, L + 1])))} for j in range(rng.randint(2, 5))]
            text = ctrl.render(lang, funcs, prefix="b%d" % idx)[0]
            # some function headers already carry a suppression (bare or naming the rule): an edit that does not touch the directive's words must not revive the finding
            cmk = "#" if lang == "py" else "//"
            lines_ = text.split("\n")
            for li, ln in enumerate(lines_):
                if re.match(r"\s*(async\s+)?(def|fn|function)\s+fn%d_" % idx, ln) and rng.random() < 0.4:
                    lines_[li] = ln + "  " + rng.choice(["%s thailint: ignore", "%s thailint: ignore[nesting]", "%s thailint: ignore[nesting.excessive-depth]"]) % cmk
            files["pkg/n%d%s" % (idx, ctrl.EXT[lang])] = "\n".join(lines_)
        cfg = {"nesting": {"max_nesting_depth": L}}
        cmds = ["nesting"]
    elif kind == 1:
        files["pkg/m%d.py" % idx] = lits.gen_py(rng, rng.randint(8, 25))[0]
        files["pkg/m%d.ts" % idx] = lits.gen_ts(rng, rng.randint(8, 20))[0]
        files["pkg/m%d.rs" % idx] = lits.gen_rs(rng, rng.randint(8, 20))[0]
        cmds = ["magic-numbers"]
    elif kind == 2:
        M, Lc = rng.choice([3, 5]), rng.choice([12, 20])
        for lang in ("py", "ts", "rs"):
            files["pkg/s%d%s" % (idx, ctrl.EXT[lang])] = classes.gen_file(rng, lang, idx, M, Lc, rng.randint(1, 3))[0]
        cfg = {"srp": {"max_methods": M, "max_loc": Lc}}
        cmds = ["srp", "stateless-class"]
    elif kind == 3:
        files["pkg/r%d.rs" % idx] = c17.gen_file(rng, idx)[0]
        cmds = ["unwrap-abuse", "clone-abuse", "blocking-async"]
    elif kind == 4:
        W = rng.choice([3, 4])
        fs, runs = c03.gen_project(rng, idx, W, 2)
        files.update(fs)
        # a file whose countable lines are exactly one window, shared with a longer file: appending to it / inserting above it changes nothing about that window
        for lang in ("py", "ts"):
            ids = [idx * 1000 + 500 + k + (50 if lang == "ts" else 0) for k in range(W)]
            body = [c03.stmt(lang, k) for k in ids]
            files["pkg/edge%d.%s" % (idx, lang)] = "%s window-sized module%s\n%s\n" % ("#" if lang == "py" else "//", c03.NON_ASCII, "\n".join(body))
            head, tail_, ind = ("def holder_%d(alpha, beta):" % idx, "    return alpha", "    ") if lang == "py" else ("function holder_%d(alpha, beta) {" % idx, "  return alpha;\n}", "  ")
            files["pkg/edge_host%d.%s" % (idx, lang)] = "\n".join([head, ind + c03.stmt(lang, idx * 1000 + 700)] + [ind + b for b in body] + [ind + c03.stmt(lang, idx * 1000 + 701), tail_]) + "\n"
            # a module constant defined in two files (duplicate-constant detection), at the END of both
            const = ("SHARED_LIMIT_%d = %d\n" if lang == "py" else "export const SHARED_LIMIT_%d = %d;\n") % (idx, 4000 + idx)
            for nm in ("pkg/edge%d.%s" % (idx, lang), "pkg/edge_host%d.%s" % (idx, lang)):
                files[nm] += "\n\n" + const if lang == "py" else const
        cfg = {"dry": {"enabled": True, "min_duplicate_lines": W, "min_occurrences": 2, "detect_duplicate_constants": True}}
        cmds = ["dry"]
    else:
        t = triggers.random_files(rng, tag="e%d" % idx)
        cfg = yaml.safe_load(t.pop(".thailint.yaml"))
        files.update(t)
        cmds = [c for c in triggers.CMDS if c != "file-placement"]
        names_matter = True
    if idx % 2 == 1:
        # every second base is pure ASCII, so that an inserted non-ASCII comment is the FIRST character whose byte length differs from 1
        # (a base that already has such characters is equally affected before and after the edit: the relation cannot see that)
        files = {f: t.encode("ascii", "ignore").decode("ascii") for f, t in files.items()}
    return {"idx": idx, "kind": kind, "files": files, "cfg": cfg, "cmds": cmds}


def make_case(rng, idx):
    base = make_base(rng, idx)
    seq = [rng.choice(sorted(EDITS)) for _ in range(rng.choice([1, 1, 2, 3, 4]))]
    if "crlf" in seq:
        seq = [e for e in seq if e != "crlf"] + ["crlf"]  # line-ending conversion last, so the file stays consistently CRLF
    if base["kind"] == 5:
        seq = [e for e in seq if e not in ("rename", "reindent")] or ["insert"]  # trigger files contain names that rules inspect; hand-written layout
    if base["kind"] in (4, 6):
        seq = [e for e in seq if e != "rename"] or ["insert"]
    if base["kind"] == 8:
        seq = [e for e in seq if e in ("insert", "trailing-ws", "crlf")]
        seq = ["insert", "insert"] + seq  # (two rounds of insertions: few lines, every boundary matters)
    if base["kind"] == 7:
        seq = [e for e in seq if e not in ("rename", "reindent", "bom")] or ["insert"]  # (hand-written layout; a BOM would precede the header the linter reads)
        if "insert" not in seq:
            seq = ["insert"] + seq
    if base["kind"] == 4 and idx % 2 == 0 and "append" not in seq:
        seq = ["append"] + seq  # growing a file past the window size is the edit that separates 'fits exactly' from 'fits'
    edited = {}
    maps = {}
    flags = {"columns": True, "edits": seq}
    for f, text in base["files"].items():
        lang = f.rsplit(".", 1)[1]
        fmap = (lambda l: l)
        cur = text
        for e in seq:
            erng = rng if e in ("insert", "trailing-ws", "append") else __import__("random").Random("%d:%s:%s" % (idx, e, "shared"))  # same rename/reindent choice in every file
            cur, m, fl = EDITS[e](erng, cur, lang, 12 if base["kind"] == 5 else 8 if base["kind"] == 7 else 0)
            fmap = (lambda l, a=fmap, b=m: b(a(l)))
            if fl["columns"] is False:
                flags["columns"] = False
            elif fl["columns"] == "not-line-1" and flags["columns"] is True:
                flags["columns"] = "not-line-1"
        edited[f] = cur
        nlines = text.count("\n") + 2
        maps[f] = [fmap(l) for l in range(nlines + 1)]
    return {"idx": idx, "kind": base["kind"], "files": base["files"], "edited": edited, "maps": maps, "cfg": base["cfg"], "cmds": base["cmds"], "flags": flags}


def exec_case(case):
    out = {}
    for name in ("files", "edited"):
        d = runner.new_dir("e")
        fs = dict(case[name])
        fs[".thailint.yaml"] = yaml.safe_dump(case["cfg"]) if case["cfg"] else "{}\n"
        runner.write_tree(d, fs)
        res = {}
        for cmd in case["cmds"]:
            if cmd == "lib:cqs":
                o = runner.call(lib_cqs, d, timeout=120)
                res[cmd] = {"exit": 0 if o.get("ok") else 3, "v": o.get("value") if o.get("ok") else None, "err": str(o)[-300:] if not o.get("ok") else "", "swallowed": 0}
                continue
            r = runner.cli([cmd, "--format", "json", "."], d)
            vs = r.violations()
            res[cmd] = {"exit": r.exit, "v": vs, "err": r.err[-200:] if vs is None else "", "swallowed": len(r["swallowed"])}
        out[name] = res
    return out


def msg_norm(rule, msg, renamed):
    if rule.startswith("dry."):
        m = re.match(r"^Duplicate code \(\d+ lines?, (\d+) occurrences?\)", msg)
        return "dry:%s" % (m.group(1) if m else "?")
    if rule.startswith(("unwrap-abuse", "clone-abuse", "blocking-async")):
        return msg.split(":")[0]  # these messages quote the source line
    if rule.startswith("stringly-typed"):
        return re.sub(r":\d+", ":N", msg)
    if rule.startswith("cqs"):
        return re.sub(r"Line \d+", "Line N", msg)  # the message lists the lines of the operations, which legitimately move
    return msg


def run(ctx):
    ctx.rule = ("case = base file set (constructs on and around the configured thresholds) + sequence of 1-4 edits from {blank/comment insertion, trailing whitespace, consistent "
                "re-indentation, LF->CRLF, add/remove UTF-8 BOM, append unrelated code, consistent renaming of generator-owned local identifiers} x relevant commands; "
                "distinct non-trivial = (base kind, edit sequence, command) whose base run has >= 1 violation")
    ctx.assumptions = ["comment lines carry no directive; insertion points are line boundaries of generated files without multi-line strings",
                       "renaming touches only generator-owned filler identifiers (never function/class names, keywords or names a rule inspects)",
                       "header-sensitive linters (file-header, lazy-ignores) are only judged for edits below line 12 and never for BOM",
                       "DRY: location references and line spans inside messages legitimately move; the occurrence count is compared"]
    rng = ctx.rng()
    cases = [make_case(rng, i) for i in range(ctx.size(240, 3000))]
    outs = runner.pmap(exec_case, cases, timeout=600)
    for case, o in zip(cases, outs):
        if not o.get("ok"):
            ctx.inconclusive_if(True, "case %d failed in harness: %s" % (case["idx"], str(o)[:300]))
            continue
        v = o["value"]
        seq = case["flags"]["edits"]
        for cmd in case["cmds"]:
            ctx.evaluations += 2
            b, e = v["files"][cmd], v["edited"][cmd]
            rep = {"argv": [cmd, "--format", "json", "."], "edits": seq, "kind": case["kind"]}
            if b["v"] is None or b["exit"] not in (0, 1):
                ctx.inconclusive_if(True, "case %d base run of %s failed: %s" % (case["idx"], cmd, b["err"]))
                continue
            if cmd in HEADER_SENSITIVE and ("bom" in seq):
                ctx.count("not_judged_header_sensitive")
                continue
            cols = case["flags"]["columns"]
            def key(vv, mapped, cols=cols):
                line = vv["line"]
                if mapped:
                    mp = case["maps"].get(vv["file_path"])
                    line = mp[line] if mp and 0 <= line < len(mp) else line
                c = vv["column"] if cols is True or (cols == "not-line-1" and vv["line"] != 1) else None
                return (vv["rule_id"], vv["file_path"], line, c, msg_norm(vv["rule_id"], vv["message"], None))
            exp = Counter(key(x, True) for x in b["v"])
            if e["v"] is None or e["exit"] not in (0, 1):
                ctx.discrepancy("edited-run-fails:%s:%s" % (cmd, "+".join(sorted(set(seq)))), "case %d: `%s` on the edited files: exit %s %s" % (case["idx"], cmd, e["exit"], e["err"]), rep, case["edited"])
                continue
            got = Counter(key(x, False) for x in e["v"])
            if b["v"]:
                ctx.nontrivial([case["kind"], seq, cmd])
            ctx.count("comparisons")
            for ed in set(seq):
                ctx.count("edit:" + ed)
            if exp != got:
                lost, new = list((exp - got).elements()), list((got - exp).elements())
                langs = sorted({x[1].rsplit(".", 1)[-1] for x in lost + new})
                fams = sorted({x[0].split(".")[0] for x in lost + new})
                ctx.discrepancy("edit-changes-findings:%s:%s:%s" % ("+".join(sorted(set(seq))), "+".join(fams), "+".join(langs)),
                                "case %d edits %s, `%s`: lost %r new %r" % (case["idx"], seq, cmd, lost[:2], new[:2]), dict(rep, expected=[list(x) for x in lost[:4]], observed=[list(x) for x in new[:4]]),
                                dict({"base/" + k: t for k, t in case["files"].items()}, **{"edited/" + k: t for k, t in case["edited"].items()}))
    c0 = cases[0]
    ctx.sample({"kind": c0["kind"], "edits": c0["flags"]["edits"], "commands": c0["cmds"], "config": c0["cfg"], "files": sorted(c0["files"])})
    ctx.inconclusive_if(ctx.counters["comparisons"] < 200, "fewer than 200 comparisons")
