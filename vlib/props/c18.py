"""C18 - file-placement verdicts follow the allow/deny rules exactly.

Monitor: boundary trace of `thailint file-placement` under generated rule sets (inline --rules JSON, yaml/json
`file-placement:` section) over a fixed tree with look-alike directories. Oracle: reference evaluator written from the
property text + the doc's "Precedence Rules"; invalid regex anywhere => exit 2.
"""
from __future__ import annotations

import itertools
import json
import os
import re

from .. import runner

TREE = [
    "README.md", "main.py", "setup.py", "Makefile",
    "src/a.py", "src/test_a.py", "src/Mod.PY", "src/notes.txt", "src/api/x.ts", "src/api/users_api.py", "src/api/v1/h_api.py", "src/api/v1/test_h.py",
    "srcx/b.py", "src_old/c.py", "tests/test_t.py", "tests/helper.py", "tests2/t.py", "lib/util.ts", "lib/README.md", "lib/deep/er/m.tsx", "docs/guide.md",
    # files (not directories) whose NAME is that of an always-skipped directory: ordinary files of the project, judged like any other
    "src/build", "lib/venv", "docs/pkg.egg-info", "dist",
    # hidden directories and their dot-less look-alikes; a directory whose name is a number
    ".github/workflows/ci.yml", ".github/notes.txt", "github/readme.txt", ".config/app/settings.py", "config/app/settings.py", "2024/report.csv", "2024/notes.py",
]
# symbolic links inside the tree to files that live under OTHER rules: each is a file of the project at the place where it is found
LINKS = {"src/linked_guide.md": "../docs/guide.md", "docs/linked_a.py": "../src/a.py", "lib/deep/linked_t.py": "../../tests/test_t.py", "tests/linked_util.ts": "../lib/util.ts"}
TREE += sorted(LINKS)
DIRS = ["src", "src/", "src/api", "src/api/v1", "tests", "lib", "/", "docs", "lib/deep", ".github", ".config/app", "github", "2024"]
PATTERNS = [r".*\.py$", r"^src/.*", r"test_.*\.py$", r".*\.(ts|tsx)$", r"(?i)readme", r"^[a-z_]+\.py$", r".*_api\.py$", r".*", r".*\.md$", r"^lib/", r"v1/"]
BAD_PATTERNS = ["[", "(?P<", "*abc", "(unclosed", "a{2,1}"]


def contains(dir_key: str, path: str, string_prefix: bool = False) -> bool:
    if dir_key == "/":
        return "/" not in path
    if string_prefix:
        return path.startswith(dir_key)
    return path.startswith(dir_key.rstrip("/") + "/")


def depth(dir_key: str) -> int:
    return 0 if dir_key == "/" else len(dir_key.rstrip("/").split("/"))


def pat_of(item):
    return item["pattern"] if isinstance(item, dict) else item


def judged(rule: dict, path: str) -> bool:
    if any(re.search(pat_of(p), path, re.IGNORECASE) for p in rule.get("deny", [])):
        return True
    if "allow" in rule and not any(re.search(pat_of(p), path, re.IGNORECASE) for p in rule["allow"]):
        return True
    return False


def global_verdict(rules: dict, path: str) -> bool:
    if any(re.search(pat_of(p), path, re.IGNORECASE) for p in rules.get("global_deny", [])):
        return True
    return judged(rules.get("global_patterns", {}), path)


def ref(rules: dict, path: str, string_prefix=False, global_on_covered=False):
    """-> (reported?, covered?)"""
    dirs = rules.get("directories", {})
    cover = [k for k in dirs if contains(k, path, string_prefix)]
    if cover:
        best = max(cover, key=lambda k: len(k.split("/")) if string_prefix and k != "/" else depth(k))
        v = judged(dirs[best], path)
        if global_on_covered:
            v = v or global_verdict(rules, path)
        return v, True
    return global_verdict(rules, path), False


def gen_rule(rng):
    if rng.random() < 0.12:
        return {}  # an empty rule still covers its directory: nothing is restricted there and global rules do not apply
    r = {}
    if rng.random() < 0.7:
        # (an entry may be written as a mapping with a `pattern` key, like the entries of a deny list - the repository's own e2e tests do)
        r["allow"] = [({"pattern": p} if rng.random() < 0.25 else p) for p in rng.sample(PATTERNS, rng.randint(1, 3))]
    if rng.random() < 0.6 or not r:
        r["deny"] = [({"pattern": p, "reason": "denied %d" % i} if rng.random() < 0.5 else p) for i, p in enumerate(rng.sample(PATTERNS[:-1], rng.randint(1, 2)))]
    return r


def gen_rules(rng):
    rules = {}
    nd = rng.randint(0, 4)
    keys = rng.sample(DIRS, nd)
    if "src" in keys and "src/" in keys:
        keys.remove("src/")
    if keys:
        rules["directories"] = {k: gen_rule(rng) for k in keys}
    if rng.random() < 0.4:
        rules["global_deny"] = [({"pattern": p, "reason": "globally denied"} if rng.random() < 0.6 else p) for p in rng.sample(PATTERNS[:-1], rng.randint(1, 2))]
    if rng.random() < 0.4:
        gp = {}
        if rng.random() < 0.6:
            gp["deny"] = [{"pattern": p, "message": "gp deny"} if rng.random() < 0.5 else p for p in rng.sample(PATTERNS[:-1], 1)]
        if rng.random() < 0.6 or not gp:
            gp["allow"] = [({"pattern": p} if rng.random() < 0.25 else p) for p in rng.sample(PATTERNS, rng.randint(1, 3))]
        rules["global_patterns"] = gp
    return rules


def exec_case(case):
    d = runner.new_dir("f")
    files = {p: "x = 1\n" for p in TREE}
    rules = case["rules"]
    argv = ["file-placement", "--format", "json"]
    carrier = case["carrier"]
    if carrier == "rules-inline":
        argv += ["--rules", json.dumps(rules)]
    elif carrier in ("yaml-hyphen", "yaml-underscore"):
        import yaml
        dumped = yaml.safe_dump({"file-placement" if carrier == "yaml-hyphen" else "file_placement": rules})
        if case.get("bare_number_keys"):
            dumped = re.sub(r"^(\s*)'(\d+)':", r"\1\2:", dumped, flags=re.M)  # 2024: instead of '2024': - YAML reads the key as a number
        files[".thailint.yaml"] = dumped
    elif carrier == "json":
        files[".thailint.json"] = json.dumps({"file-placement": rules})
    elif carrier == "config-opt":
        import yaml
        files["fp.yaml"] = yaml.safe_dump({"file-placement": rules})
        argv += ["--config", "../fp.yaml" if case.get("from_sub") else "fp.yaml"]
    for lk in LINKS:
        files.pop(lk)
    runner.write_tree(d, files)
    import os as _os
    for lk, tgt in LINKS.items():
        _os.symlink(tgt, _os.path.join(d, lk))
    cwd, target = (d, ".") if not case.get("from_sub") else (d + "/src", "..")
    if case.get("abs"):
        target = d
    if case.get("abs_dotdot"):
        target = _os.path.join(d, "src", "..")  # the project root spelled absolutely through a sub-directory and back
    r = runner.cli(argv + [target], cwd)
    vs = r.violations()
    rows = None
    if vs is not None:
        import os
        rows = []
        for v in vs:
            fp = v["file_path"]
            cand = os.path.normpath(os.path.join(cwd, fp))
            fp = os.path.relpath(cand, d) if os.path.exists(cand) else fp
            rows.append([fp, v["rule_id"], v["message"], v["line"]])
    return {"exit": r.exit, "rows": rows, "err": r.err[-400:], "argv": argv + [target], "files": {k: v for k, v in files.items() if k not in TREE}}


def run(ctx):
    ctx.rule = ("case = (rule set over the directory/pattern alphabet, carrier) x 21 paths of a tree with look-alike directories; "
                "distinct non-trivial = rule sets (canonical JSON) with >= 1 directory rule or global rule for which the reference reports >= 1 and spares >= 1 path")
    ctx.assumptions = ["reference evaluator from the property text and docs/file-placement-linter.md 'Precedence Rules' (deny over allow, directory over global, re.search, case-insensitive)",
                       "files are compared as a set (number of violations per file is not specified)", "'src' and 'src/' are never both present in one rule set"]
    rng = ctx.rng()
    cases = []
    carriers = ["rules-inline", "yaml-hyphen", "yaml-underscore", "json", "config-opt"]
    for i in range(ctx.size(600, 6000)):
        cases.append({"rules": gen_rules(rng), "carrier": carriers[i % len(carriers)], "from_sub": rng.random() < 0.15, "kind": "random", "abs": rng.random() < 0.2, "bare_number_keys": rng.random() < 0.5,
                      "abs_dotdot": rng.random() < 0.1})
    cases.append({"rules": {}, "carrier": "rules-inline", "kind": "no-rules"})
    cases.append({"rules": {}, "carrier": "yaml-hyphen", "kind": "no-rules"})
    if not ctx.quick:
        # exhaustive: every pair of directory keys x a small allow/deny alphabet
        small = [{"allow": [r".*\.py$"]}, {"deny": [r"test_.*\.py$"]}, {"allow": [r".*\.(ts|tsx)$"], "deny": [r"(?i)readme"]}]
        for (k1, k2) in itertools.combinations(DIRS, 2):
            if {k1, k2} == {"src", "src/"}:
                continue
            for r1, r2 in itertools.product(small, repeat=2):
                cases.append({"rules": {"directories": {k1: r1, k2: r2}}, "carrier": "rules-inline", "kind": "exhaustive-pair"})
        ctx.obs["exhaustive_pair_subspace"] = "all %d unordered directory-key pairs x 3x3 rule bodies" % (len(DIRS) * (len(DIRS) - 1) // 2 - 1)
    # invalid patterns in every position
    for bp in BAD_PATTERNS:
        for pos in ("dir-allow", "dir-deny", "global_deny", "gp-deny", "gp-allow"):
            rules = {"directories": {"src": {"allow": [r".*\.py$"]}}}
            if pos == "dir-allow":
                rules["directories"]["src"]["allow"].append(bp)
            elif pos == "dir-deny":
                rules["directories"]["src"]["deny"] = [{"pattern": bp, "reason": "x"}]
            elif pos == "global_deny":
                rules["global_deny"] = [{"pattern": bp, "reason": "x"}]
            elif pos == "gp-deny":
                rules["global_patterns"] = {"deny": [bp]}
            else:
                rules["global_patterns"] = {"allow": [bp]}
            try:
                re.compile(bp)
                continue
            except re.error:
                pass
            cases.append({"rules": rules, "carrier": rng.choice(["rules-inline", "yaml-hyphen"]), "kind": "invalid:" + pos})
    outs = runner.pmap(exec_case, cases, timeout=600)
    for case, o in zip(cases, outs):
        if not o.get("ok"):
            ctx.inconclusive_if(True, "case failed in harness: %s" % str(o)[:300])
            continue
        v = o["value"]
        ctx.evaluations += 1
        rules = case["rules"]
        files = dict({p: "x = 1\n" for p in TREE}, **v["files"])
        rep = {"argv": v["argv"], "rules": rules, "carrier": case["carrier"]}
        if case["kind"].startswith("invalid"):
            ctx.count("invalid_pattern_cases")
            ctx.nontrivial(["invalid", json.dumps(rules, sort_keys=True)])
            if v["exit"] != 2:
                ctx.discrepancy("invalid-pattern-accepted:" + case["kind"].split(":")[1], "rule set with invalid regex (%s) ended with exit %s instead of 2" % (case["kind"], v["exit"]), rep, files)
            continue
        if v["rows"] is None or v["exit"] not in (0, 1):
            ctx.discrepancy("run-error", "exit %s: %s" % (v["exit"], v["err"][-200:]), rep, files)
            continue
        for row in v["rows"]:
            if not row[1].startswith("file-placement"):
                ctx.discrepancy("foreign-rule", "row %r" % row, rep, files)
        got = {row[0] for row in v["rows"]}
        exp = {p for p in TREE if ref(rules, p)[0]}
        ctx.count("verdicts_checked", len(TREE))
        ctx.count("carrier:" + case["carrier"])
        if exp and len(exp) < len(TREE) and rules:
            ctx.nontrivial(json.dumps(rules, sort_keys=True))
        cfgfiles = {"fp.yaml", ".thailint.yaml", ".thailint.json"}
        got_tree = got - cfgfiles
        extra_cfg = got & cfgfiles
        if got_tree != exp:
            for p in sorted(got_tree ^ exp)[:6]:
                variants = {}
                for sp in (False, True):
                    for gc in (False, True):
                        variants[(sp, gc)] = ref(rules, p, sp, gc)[0]
                observed = p in got_tree
                if case.get("bare_number_keys") and case["carrier"].startswith("yaml") and any(str(k).isdigit() for k in (rules.get("directories") or {})):
                    key, why = "verdict-mismatch:numeric-yaml-key", "a directory key that YAML reads as a number"
                elif case.get("abs_dotdot"):
                    key, why = "verdict-mismatch:absolute-target-through-dotdot", "the target is spelled /abs/proj/src/.."
                elif variants[(True, False)] == observed and variants[(False, False)] != observed and variants[(False, True)] != observed:
                    key = "dir-rule-string-prefix"
                    why = "a directory rule is applied by string prefix (e.g. 'src' also governs 'srcx/...')"
                elif variants[(False, True)] == observed and variants[(False, False)] != observed:
                    key = "global-rules-applied-to-covered-file"
                    why = "global deny/allow rules are applied to a file that a directory rule covers (docs: directory overrides global)"
                elif variants[(True, True)] == observed and variants[(False, False)] != observed:
                    key = "dir-rule-string-prefix+global-on-covered"
                    why = "string-prefix directory matching combined with global rules on covered files"
                elif p.startswith((".github", ".config", "github/", "config/")):
                    key, why = "verdict-mismatch:hidden-directory", "a hidden directory or its dot-less look-alike"
                else:
                    key = "verdict-mismatch"
                    why = "no known mechanism explains it"
                ctx.discrepancy(key, "path %s: reported=%s, reference=%s (%s); rules %s" % (p, observed, p in exp, why, json.dumps(rules)[:300]),
                                dict(rep, expected=sorted(exp), observed=sorted(got_tree)), files)
        if case["kind"] == "no-rules" and got:
            ctx.discrepancy("no-rules-reports", "no rules configured but %s reported" % sorted(got)[:3], rep, files)
    ctx.sample({"rules": cases[0]["rules"], "carrier": cases[0]["carrier"], "tree": TREE,
                "reference_reported": sorted(p for p in TREE if ref(cases[0]["rules"], p)[0])})
    ctx.inconclusive_if(ctx.counters["verdicts_checked"] < 2000, "fewer than 2000 verdicts")
