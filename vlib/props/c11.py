"""C11 - no input makes a linter crash, hang, or silently drop its analysis.

Monitors: M-EXC (hook H1 failure tap: every exception the orchestrator swallows, per rule and file), process monitor
(exit status / signal / traceback on stderr, faulthandler on), watchdog with confirmation run, sibling-result
comparison (with vs. without the offending file). The failure tap is self-tested on every run with an injected rule failure.
"""
from __future__ import annotations

import base64
import glob
import os
import re

from .. import runner
from ..gen import ctrl, mutate, triggers

CROSS = ("dry.", "stringly-typed.")
SIB_TAG = "sib"


def siblings():
    t = triggers.files(SIB_TAG, modes=("alpha", "beta", "gamma"))
    return {"ok/one.py": t["src/app%s.py" % SIB_TAG], "ok/two.ts": t["src/web%s.ts" % SIB_TAG], "ok/three.rs": t["src/core%s.rs" % SIB_TAG],
            "ok/four.py": t["src/other%s.py" % SIB_TAG], ".thailint.yaml": "dry:\n  enabled: true\n  min_duplicate_lines: 3\n",
            # string patterns that occur in this ONE file only: below every cross-file threshold unless something counts them twice
            "ok/solo.py": ("def set_solo_mode(order, mode):\n    order.mode = mode\n    return order\n\n\n"
                           "def solo_all(orders):\n    for order in orders:\n        set_solo_mode(order, \"express\")\n    return orders\n\n\n"
                           "def solo_slowly(order):\n    return set_solo_mode(order, \"economy\")\n\n\n"
                           "def solo_classify(order):\n    if order.tier == \"gold\":\n        return 3\n    if order.tier == \"silver\":\n        return 2\n    return 1\n")}


def lint_all(arg):
    """Forked child: one lint_directory over the project = every registered rule on every file."""
    import faulthandler
    from pathlib import Path

    files_b64, self_test = arg[0], arg[1]
    order = arg[2] if len(arg) > 2 else None  # None: one lint_directory (walk order); list: one lint_files call in exactly this order
    root = runner.new_dir("x")
    files = {k: base64.b64decode(v) for k, v in files_b64.items()}
    runner.write_tree(root, files)
    os.chdir(root)
    faillog = os.path.join(root, ".git", "faillog")
    os.environ["THAILINT_VERIF_FAILLOG"] = faillog
    errlog = os.path.join(root, ".git", "stderr.log")
    efd = os.open(errlog, os.O_WRONLY | os.O_CREAT | os.O_APPEND, 0o600)
    os.dup2(efd, 2)
    faulthandler.enable(file=efd)
    from src.orchestrator.core import Orchestrator

    if self_test:
        import src.linters.nesting.linter as nl

        def boom(self, context):
            raise RuntimeError("injected failure (monitor self-test)")
        nl.NestingDepthRule.check = boom
    out = {"raised": None}
    try:
        if order is None:
            vs = Orchestrator(project_root=Path(root)).lint_directory(Path(root))
        else:
            vs = Orchestrator(project_root=Path(root)).lint_files([Path(root) / f for f in order])
        out["v"] = sorted([v.rule_id, os.path.relpath(str(v.file_path), root) if os.path.isabs(str(v.file_path)) else str(v.file_path), v.line, v.column, v.message[:200]] for v in vs)
    except BaseException as e:  # noqa: BLE001
        import traceback

        out["v"] = None
        out["raised"] = "%s: %s" % (type(e).__name__, str(e)[:200])
        fams = [m.group(1) for fr in traceback.extract_tb(e.__traceback__) for m in [re.search(r"/src/linters/([a-z_]+)/", fr.filename)] if m]
        out["raised_in"] = fams[-1] if fams else "core"
    out["swallowed"] = runner._read_faillog(faillog)
    return out


def cli_case(arg):
    files_b64, runs = arg
    root = runner.new_dir("x")
    runner.write_tree(root, {k: base64.b64decode(v) for k, v in files_b64.items()})
    out = []
    for (cmd, fmt, par) in runs:
        argv = [cmd, "--format", fmt] + (["--parallel"] if par else []) + ["."]
        r = runner.cli(argv, root, timeout=240)
        out.append({"argv": argv, "exit": r.exit, "signal": r["signal"], "timeout": r["timeout"], "traceback": "Traceback (most recent call last)" in r.err,
                    "swallowed": r["swallowed"], "err": r.err[-1500:], "fams": re.findall(r"/src/linters/([a-z_]+)/", ANSI.sub("", r.err))[-3:]})
    return out


def enc(files):
    return {k: base64.b64encode(v if isinstance(v, bytes) else v.encode("utf-8")).decode() for k, v in files.items()}


def seeds(rng):
    """(language, bytes) seeds: the repository's own sources, documented-style trigger files, generated programs."""
    out = []
    srcs = sorted(glob.glob(os.path.join(runner.REPO, "src", "**", "*.py"), recursive=True))
    for p in rng.sample(srcs, min(len(srcs), 25)):
        with open(p, "rb") as f:
            out.append(("py", f.read()))
    t = triggers.files("seed", modes=("one", "two", "three"))
    out += [("py", t["src/appseed.py"].encode()), ("ts", t["src/webseed.ts"].encode()), ("rs", t["src/coreseed.rs"].encode()), ("py", t["src/otherseed.py"].encode())]
    for lang in ("py", "ts", "js", "rs"):
        for k in range(4):
            funcs = [{"name": "g%s%d_%d" % (lang, k, j), "style": rng.choice(["func", "method"]), "block": ctrl.gen_block(rng, ctrl.kinds_for(lang), 4, [8])} for j in range(3)]
            out.append((lang, ctrl.render(lang, funcs, prefix="s%d" % k)[0].encode()))
    return out


def make_cases(ctx, rng):
    cases = []
    sd = seeds(rng)
    ext = {"py": ".py", "ts": ".ts", "js": ".js", "rs": ".rs"}
    names = sorted(mutate.MUTATORS)
    n = ctx.size(260, 6000)
    for i in range(n):
        lang, data = rng.choice(sd)
        ms = [rng.choice(names) for _ in range(rng.choice([1, 1, 1, 2, 3, 4]))]
        for m in ms:
            data = mutate.MUTATORS[m](data, rng)
            if len(data) > 3_000_000:
                data = data[:3_000_000]
        cases.append({"id": "mut%d" % i, "name": "bad/off%d%s" % (i, ext[lang]), "data": data, "mclass": "+".join(sorted(set(ms))), "lang": lang})
    depths = [50, 200, 1000, 5000] if not ctx.quick else [50, 200, 1000, 3000]
    for lang in ("py", "ts", "js", "rs"):
        for kind in ("parens", "brackets", "blocks", "opchain", "attrchain", "closures"):
            for d in depths:
                if kind == "blocks" and lang == "py" and d > 90:
                    continue  # CPython itself rejects > ~100 indentation levels ('too many levels of indentation'): still a file, but identical class
                cases.append({"id": "blow:%s:%s:%d" % (lang, kind, d), "name": "bad/blow_%s_%d%s" % (kind, d, ext[lang]), "data": mutate.blowup(lang, kind, d),
                              "mclass": "blowup-%s-%d" % (kind, d), "lang": lang})
        cases.append({"id": "many:%s" % lang, "name": "bad/many%s" % ext[lang], "data": mutate.m_many_functions(b"", rng, lang), "mclass": "many-functions", "lang": lang})
    # unusual but legitimate tokens (one per offending file)
    tok_js = ["08", "0089", "0755", "09.5", "1_000", "0b101", "0o17", ".5e-3", "1e400", "0xFFFFFFFFFFFFFFFFFFFFFFFF", "123456789012345678901234567890n", "9" * 5000,
              "0x" + "f" * 4500, "/[/]+/g.test(a)", "`${a}${`${a}`}`", "a?.b?.[0] ?? 1", "'\\uD800'", "1..toString()", "0.1e-2_0"]
    tok_py = ["9" * 5000, "0x" + "f" * 4500, "1e400", "0o777", "1_0", "5j", "'\\ud800'", "b'\\xff'", "f'{a!r:>{10}}'", "(y := a)", "...", "1if a else 2", "0_0", "1e-400", "0xDEADBEEF_CAFE",
              "'\\N{BULLET}'", "u'x'", "rb'\\d'"]
    tok_rs = ["0xFFFF_FFFF_FFFF_FFFF_FFFF_FFFF_FFFF_FFFFu128", "1e400", "r#\"raw \"quoted\" text\"#", "b\"bytes\\xff\"", "'\\u{10FFFF}'", "0b1111_0000u8", "1_000_000i64", "9" * 300,
              "0o777", "1.0e-7f64", "b'\\''", "'a", "340282366920938463463374607431768211455"]
    # legitimate constructs that span lines or end a line in an unusual character (string continuations, raw / nested literals, comments in odd places)
    tok_js += ["\"abc \\\ndef\"", "'abc \\\ndef'", "`tpl \\\nmore ${a} \\`", "`a\n${\n  a\n}\nb`", "/\\/[\"'`]/.test(a)", "a /* \" ' ` */ + 1", "a // trailing \\\n  + 1", "\"\\\\\"",
               "'\\''", "`\\``", "a\n  ?.b\n  ?.c", "(\n  a\n)", "{ k: \"}\" }.k", "\"\\u{1F600}\""]
    tok_py += ["\"abc \\\ndef\"", "'abc' \\\n        'def'", "('abc'\n             'def')", "\"\"\"tri \" ' \\\n\"\"\"", "f'{a!r}' f\"{a:>{3}}\"", "a  # trailing \\", "(\n        a\n    )",
               "r'\\'", "'\\\\'", "[\n        a,  # c\n    ][0]", "lambda: (yield)", "f'{\"x\" \"y\"}'"]
    tok_rs += ["\"usage: tool \\\n        more\"", "b\"bytes \\\n   more\"", "r\"raw\nline\"", "r##\"a \"# b\"##", "'\"'", "'\\\\'", "\"\\\\\"", "a /* /* nested \" */ ' */ + 1", "a // trailing \\\n        + 1",
               "\"{\"", "\"}\"", "'{'", "b'\\\\'", "\"a\\\n\"", "{ let s: &'static str = \"x\"; s.len() as i64 }"]
    for lang, toks in (("js", tok_js), ("ts", tok_js), ("py", tok_py), ("rs", tok_rs)):
        for ti, tok in enumerate(toks):
            # the token once in a plain function and once inside a class / struct + impl (class-level analyses count and scan those lines themselves)
            if lang == "py":
                body = ("TOKEN_LIMIT = %s\n\n\ndef tok_fn(a):\n    value = %s\n    if a in (\"x\", %s):\n        return value\n    return check(a, %s)\n\n\n"
                        "class TokHolder:\n    def __init__(self, a):\n        self.a = a\n\n    def pick(self, a):\n        value = %s\n        return value\n\n    def other(self):\n        return self.a\n") % (tok, tok, tok, tok, tok)
            elif lang == "rs":
                body = ("fn tok_fn(a: i64) -> i64 {\n    let value = %s;\n    check(a, %s)\n}\n\npub struct TokHolder {\n    a: i64,\n}\n\nimpl TokHolder {\n    pub fn pick(&self, a: i64) -> i64 {\n        let value = %s;\n"
                        "        check(a, 0)\n    }\n\n    pub fn other(&self) -> i64 {\n        self.a\n    }\n}\n") % (tok, tok, tok)
            else:
                body = ("function tokFn(a) {\n  const value = %s;\n  if (a === %s) { return value; }\n  return check(a, %s);\n}\n\nclass TokHolder {\n  pick(a) {\n    const value = %s;\n    return value;\n  }\n\n"
                        "  other() {\n    return this.a;\n  }\n}\n") % (tok, tok, tok, tok)
            cases.append({"id": "tok:%s:%d" % (lang, ti), "name": "bad/tok%d%s" % (ti, ext[lang]), "data": body.encode("utf-8", "surrogatepass"), "mclass": "token", "lang": lang,
                          "token": tok[:40]})
    # suppression / tool comments that are damaged the way a truncated line or a forgotten bracket damages them: long runs of rule-id characters
    # that never reach their terminator, stray punctuation inside the list, thousands of items (what a backtracking pattern chokes on)
    ids = "magic-numbers.numeric-literal, nesting.excessive-depth, srp.violation, dry.duplicate-code"
    hostile = ["thailint: ignore[%s" % ids, "thailint: ignore-next-line[%s" % ids, "thailint: ignore-file[%s" % ids, "thailint: ignore-start %s [" % ids,
               "thailint: ignore[%s;]" % ids, "thailint: ignore[" + "a" * 60, "thailint: ignore[" + "a-b." * 40 + "!", "thailint: ignore[" + ", ".join("r%d" % k for k in range(3000)) + "]",
               "thailint: ignore" + " " * 3000 + "[x", "noqa: " + ",".join("E%03d" % k for k in range(400)) + ";", "noqa:" + "E501 " * 500, "type: ignore[" + "attr-defined," * 200,
               "pylint: disable=" + "invalid-name," * 300 + "(", "pyright: ignore[" + "reportGeneralTypeIssues " * 100, "nosec " + "B101," * 300, "eslint-disable-next-line " + "no-console, " * 300 + "@",
               "@ts-ignore " + "x" * 5000, "@ts-expect-error" + ":" * 2000, "thailint: ignore[" + "[" * 500, "thailint: ignore[" + "]" * 500 + "[" * 500]
    for lang in ("py", "ts", "js", "rs"):
        cmk = "#" if lang == "py" else "//"
        for hi, text in enumerate(hostile):
            if lang == "py":
                body = "def held_%d(a):\n    value = a * 4242  %s %s\n    %s %s\n    return value\n" % (hi, cmk, text, cmk, text)
            elif lang == "rs":
                body = "fn held_%d(a: i64) -> i64 {\n    let value = a * 4242; %s %s\n    %s %s\n    value\n}\n" % (hi, cmk, text, cmk, text)
            else:
                body = "function held%d(a) {\n  const value = a * 4242; %s %s\n  %s %s\n  return value;\n}\n" % (hi, cmk, text, cmk, text)
            cases.append({"id": "cmt:%s:%d" % (lang, hi), "name": "bad/cmt%d%s" % (hi, ext[lang]), "data": body.encode("utf-8"), "mclass": "damaged-directive-comment", "lang": lang,
                          "token": text[:40]})
    # degenerate contents under every kind of name (known extension, unknown extension, none): the classes the property lists, at their smallest
    for ci, data in enumerate([b"", b"\xef\xbb\xbf", b"\xef\xbb\xbf\n", b"\n", b" ", b"\t\r\n", b"\x00", b"#!", b"#!\n", b"#!/usr/bin/env python3", b"\xff\xfe", b"\r"]):
        for name in ("bad/tiny%d" % ci, "bad/tiny%d.txt" % ci, "bad/tiny%d.py" % ci, "bad/tiny%d.ts" % ci, "bad/tiny%d.rs" % ci):
            cases.append({"id": "tiny:%d:%s" % (ci, name.rsplit("/", 1)[1]), "name": name, "data": data, "mclass": "degenerate", "lang": "py"})
    py = sd[0][1]
    for name in ("bad/prog.java", "bad/prog.go", "bad/notes.txt", "bad/noext", "bad/script", "bad/data.json", "bad/x.PY", "bad/weird name (1).py", "bad/.hidden.py"):
        data = (b"#!/usr/bin/env python3\n" + py) if name.endswith("script") else py
        cases.append({"id": "ext:" + name, "name": name, "data": data, "mclass": "unknown-extension", "lang": "py"})
    return cases


def unparsable_py(data: bytes) -> bool:
    """Independent of thai-lint: CPython cannot parse it (syntax / encoding / NUL), as opposed to running out of stack or memory."""
    import ast
    import warnings

    try:
        with warnings.catch_warnings():
            warnings.simplefilter("ignore")
            ast.parse(data)
        return False
    except (SyntaxError, ValueError):
        return True
    except (RecursionError, MemoryError):
        return False


def raised_key(text):
    """Mechanism key of an exception that escapes the orchestrator: type + normalised start of its message."""
    m = re.search(r"(\w+(?:Error|Exception))\W*:?\s*(.*)", ANSI.sub("", text), re.S)
    if not m:
        return "raised:unknown"
    if "surrogates not allowed" in m.group(2):
        return "raised:%s:surrogates-not-allowed" % m.group(1)
    words = re.sub(r"['\"].*?['\"]|\d+", "N", m.group(2)).split()[:5]
    return "raised:%s:%s" % (m.group(1), "-".join(w.strip("().,:;").lower() for w in words if w.strip("().,:;")))


ANSI = re.compile(r"\x1b\[[0-9;]*m")


def fam(rule):
    return (rule or "?").split(".")[0]


def run(ctx):
    ctx.rule = ("case = two-language healthy siblings + one offending file (1-4 mutators in sequence over repository sources / trigger files / generated programs, nesting and "
                "length blow-ups, unknown extensions); distinct non-trivial = (mutator class, language) whose offending file was dispatched to the rules")
    ctx.assumptions = ["every registered rule runs on every file in one lint_directory call (the commands only filter afterwards); the CLI layer is sampled for exit codes",
                       "watchdog 120 s per case (healthy < 1 s), confirmed by a second run at 240 s before a hang is reported",
                       "sibling comparison excludes cross-file rules (dry, stringly-typed) whose findings may legitimately involve the offender"]
    rng = ctx.rng()
    sib = siblings()
    # monitor self-test: an injected rule failure must show up in the failure tap
    st = runner.call(lint_all, (enc(sib), True), timeout=120)
    ok = st.get("ok") and any(s.get("exc_type") == "RuntimeError" and "nesting" in str(s.get("rule")) for s in st["value"]["swallowed"])
    ctx.count("failure_tap_selftest_events", len(st["value"]["swallowed"]) if st.get("ok") else 0)
    if not ok:
        ctx.inconclusive_if(True, "failure tap self-test: injected RuntimeError not observed (%s)" % str(st)[:200])
        return
    base = runner.call(lint_all, (enc(sib), False), timeout=120)
    if not base.get("ok") or base["value"]["v"] is None or base["value"]["swallowed"]:
        ctx.inconclusive_if(True, "baseline run of the healthy siblings failed or swallowed something: %s" % str(base)[:300])
        return
    def per_file_rules(rows):
        return sorted(r for r in rows if r[1].startswith("ok/") and not r[0].startswith(CROSS))

    def stringly_rows(rows):
        return sorted(r[:4] for r in rows if r[0].startswith("stringly-typed."))  # (the message lists the other places in run order)
    base_sib = per_file_rules(base["value"]["v"])
    base_stringly = stringly_rows(base["value"]["v"])
    ctx.obs["sibling_violations"] = len(base_sib)
    cases = make_cases(ctx, rng)
    healthy = sorted(f for f in sib if f.startswith("ok/"))
    for i, c in enumerate(cases):
        # the offending file is met before the healthy ones, after them, or wherever the directory walk puts it
        c["order"] = [None, healthy + [c["name"]], [c["name"]] + healthy][i % 3]
    jobs = [(enc(dict(sib, **{c["name"]: c["data"]})), False, c["order"]) for c in cases]
    base_files = runner.call(lint_all, (enc(sib), False, healthy), timeout=120)
    if not base_files.get("ok") or per_file_rules(base_files["value"]["v"] or []) != base_sib or stringly_rows(base_files["value"]["v"] or []) != base_stringly:
        ctx.inconclusive_if(True, "the healthy files give different findings as a directory and as an explicit file list: %s" % str(base_files)[:300])
        return
    outs = runner.pmap(lint_all, jobs, timeout=120, total_timeout=3000)
    # confirmation runs for watchdog hits
    slow = [i for i, o in enumerate(outs) if o.get("timeout")]
    if slow:
        conf = runner.pmap(lint_all, [jobs[i] for i in slow], timeout=240, total_timeout=3000, workers=4)
        for i, o in zip(slow, conf):
            outs[i] = dict(o, confirmed=True)
    for case, o in zip(cases, outs):
        ctx.evaluations += 1
        files = dict(sib, **{case["name"]: case["data"]})
        rep = {"id": case["id"], "offender": case["name"], "mutators": case["mclass"], "argv": ["nesting", "--format", "json", "."],
               "library_call": "lint_directory(root)" if case.get("order") is None else "lint_files(%r)" % case["order"]}
        if o.get("timeout"):
            if o.get("confirmed"):
                ctx.discrepancy("hang:%s:%s" % (case["mclass"], case["lang"]), "%s: lint_directory did not finish within 120 s nor within 240 s" % case["id"], rep, files)
            continue
        if o.get("signal"):
            ctx.discrepancy("signal-%s:%s:%s" % (o["signal"], case["mclass"], case["lang"]), "%s: process died on signal %s" % (case["id"], o["signal"]), rep, files)
            continue
        if not o.get("ok"):
            ctx.inconclusive_if(True, "case %s failed in harness: %s" % (case["id"], str(o)[:300]))
            continue
        v = o["value"]
        ctx.count("mclass:" + case["mclass"].split("-")[0].split("+")[0])
        ctx.nontrivial([case["mclass"], case["lang"]])
        if v["raised"]:
            ctx.discrepancy(raised_key(v["raised"]) + ":" + v.get("raised_in", "core"), "%s%s: lint_directory raised %s in rule family %s (the CLI turns this into exit 2 for every command)" % (
                case["id"], " token %r" % case.get("token") if case.get("token") else "", v["raised"], v.get("raised_in", "core")), rep, files)
            continue
        seen = set()
        for s in v["swallowed"]:
            mcl = "blowup" if case["mclass"].startswith("blowup") else "many-functions" if case["mclass"].startswith("many") else "mutation"
            key = "swallowed:%s:%s:%s" % (s.get("exc_type"), fam(s.get("rule")) if s.get("rule") else s.get("where"), mcl)
            if key in seen:
                continue
            seen.add(key)
            ctx.count("swallowed_events")
            ctx.discrepancy(key, "%s (%s): rule %s failed internally on %s with %s: %s (swallowed, exit code unaffected)" % (
                case["id"], case["mclass"], s.get("rule"), os.path.basename(str(s.get("file"))), s.get("exc_type"), str(s.get("exc_msg"))[:120]), rep, files)
        got_sib = per_file_rules(v["v"])
        if got_sib != base_sib:
            lost = [r for r in base_sib if r not in got_sib][:2]
            new = [r for r in got_sib if r not in base_sib][:2]
            ctx.discrepancy("siblings-changed:%s" % case["mclass"].split("+")[0], "%s: findings of the healthy files changed: lost %r new %r" % (case["id"], lost, new), rep, files)
        ctx.count("sibling_comparisons")
        if case["name"].endswith(".py") and unparsable_py(case["data"]):
            # an unparsable Python file has no string patterns to contribute: the cross-file rule must report exactly what it reports without it
            got_st = stringly_rows(v["v"])
            if got_st != base_stringly:
                lost = [r for r in base_stringly if r not in got_st][:2]
                new = [r for r in got_st if r not in base_stringly][:2]
                ctx.discrepancy("cross-file-findings-changed-by-unparsable-file:stringly-typed", "%s: stringly-typed findings changed although the offending file cannot be parsed: lost %r new %r" % (
                    case["id"], lost, new), rep, files)
            ctx.count("cross_file_comparisons")
    # the repository's own test suite as a second workload for the failure tap: no scenario of the maintainers may end in a swallowed exception either
    from .. import suite_mon
    sm = suite_mon.run()
    if sm.get("timeout") or sm.get("passed") is None:
        ctx.inconclusive_if(True, "repository suite under the failure tap did not finish: %s" % str(sm)[:200])
    else:
        ctx.count("suite_tests_passed_under_tap", sm["passed"])
        ctx.count("suite_swallowed_events", len(sm["swallowed"]))
        seen_s = set()
        for ev in sm["swallowed"]:
            key = "suite-run:swallowed:%s:%s" % (ev.get("exc_type"), fam(ev.get("rule")) if ev.get("rule") else ev.get("where"))
            if key not in seen_s:
                seen_s.add(key)
                ctx.discrepancy(key, "while the repository's own tests ran, rule %s failed internally on %s with %s: %s (swallowed; the test did not notice)" % (
                    ev.get("rule"), os.path.basename(str(ev.get("file"))), ev.get("exc_type"), str(ev.get("exc_msg"))[:120]), {"suite_event": ev}, {})
    # CLI layer sample: exit codes / tracebacks
    cmds = ["nesting", "magic-numbers", "dry", "srp", "stringly-typed", "improper-logging", "file-header", "unwrap-abuse", "lbyl", "perf"]
    sample = rng.sample(range(len(cases)), min(len(cases), ctx.size(60, 600)))
    cjobs = []
    for i in sample:
        runs = [(rng.choice(cmds), rng.choice(["text", "json", "sarif"]), rng.random() < 0.15)] if ctx.quick else \
            [(rng.choice(cmds), f, rng.random() < 0.15) for f in ("text", "json", "sarif")]
        cjobs.append((enc(dict(sib, **{cases[i]["name"]: cases[i]["data"]})), runs))
    for i, o in zip(sample, runner.pmap(cli_case, cjobs, timeout=300)):
        case = cases[i]
        files = dict(sib, **{case["name"]: case["data"]})
        if not o.get("ok"):
            if o.get("timeout"):
                ctx.discrepancy("cli-hang:%s" % case["mclass"], "%s: CLI did not finish" % case["id"], {"id": case["id"]}, files)
            else:
                ctx.inconclusive_if(True, "cli case %s failed in harness: %s" % (case["id"], str(o)[:200]))
            continue
        for r in o["value"]:
            ctx.evaluations += 1
            ctx.count("cli_runs")
            rep = {"id": case["id"], "argv": r["argv"], "mutators": case["mclass"]}
            if r["timeout"] or r["signal"]:
                ctx.discrepancy("cli-died:%s" % case["mclass"].split("+")[0], "%s: `thailint %s` timeout=%s signal=%s" % (case["id"], " ".join(r["argv"]), r["timeout"], r["signal"]), rep, files)
            elif r["exit"] not in (0, 1):
                errs = re.findall(r"(\w+(?:Error|Exception))[^\n]*", ANSI.sub("", r["err"]))
                key = raised_key(ANSI.sub("", r["err"])[ANSI.sub("", r["err"]).rfind(errs[-1]):]) if errs else "cli-exit-%s:%s" % (r["exit"], case["mclass"].split("+")[0])
                if errs:
                    # same mechanism key as on the library path: the rule family of the innermost linter frame of the logged traceback
                    fams = r.get("fams") or []
                    key += ":" + (fams[-1] if fams else "core")
                ctx.discrepancy(key, "%s: `thailint %s` exit %s: %s" % (case["id"], " ".join(r["argv"]), r["exit"], r["err"][-150:]), rep, files)
            elif r["traceback"] and not r["swallowed"]:
                ctx.discrepancy("cli-traceback:%s" % r["argv"][0], "%s: traceback on stderr: %s" % (case["id"], r["err"][-150:]), rep, files)
    ctx.sample({"case": cases[0]["id"], "offender": cases[0]["name"], "mutators": cases[0]["mclass"], "first_bytes": repr(cases[0]["data"][:80])})
    ctx.inconclusive_if(ctx.counters["sibling_comparisons"] < 100, "fewer than 100 completed cases")
