"""C08 - results depend only on current file contents and config; no side effects.

Four monitors:
 (a) order      - permuted file arguments (CLI) / permuted lint_files lists (library)  -> multiset equality
 (b) hash seed  - real console script under different PYTHONHASHSEED values              -> multiset equality
 (c) history    - one long-lived Linter / Orchestrator driven through a scripted history of lint calls interleaved
                  with edits, deletions, additions; specification = a fresh object in a pristine process on the same
                  disk state (recomputed from the script); plus 'no report for a vanished path', 'no duplicate'
 (d) effects    - audit hook (open-for-write/remove/rename/mkdir/... with paths) inside the process, tree snapshot of
                  the project before/after (mode, size, sha256, mtime_ns) and of TMPDIR after exit, real CLI, sequential
                  and --parallel, both DRY storage modes
"""
from __future__ import annotations

import hashlib
import json
import os
import random
import sys
from collections import Counter

from .. import runner
from ..gen import triggers

CFG_MEM = "dry:\n  enabled: true\n  min_duplicate_lines: 3\n"
CFG_TMP = "dry:\n  enabled: true\n  min_duplicate_lines: 3\n  storage_mode: tempfile\n"


# ----------------------------------------------------------------------------- shared helpers
def vtuple(v, root):
    fp = str(v.file_path)
    if os.path.isabs(fp) and (fp == root or fp.startswith(root + "/")):
        fp = os.path.relpath(fp, root)
    return [v.rule_id, fp, v.line, v.column, v.message.replace(root + "/", ""), v.severity.value, v.suggestion]


def variants(rng, tag):
    """Pool of file contents: each logical file has several variants (with / without duplicate runs, patterns, directives)."""
    t = triggers.files(tag)
    app, other, third = t["src/app%s.py" % tag], t["src/other%s.py" % tag], t["src/third%s.py" % tag]
    web, core = t["src/web%s.ts" % tag], t["src/core%s.rs" % tag]
    nodup = "def unique_%s(a):\n    alpha = a + 1\n    return alpha * %d\n" % (tag, rng.randint(1001, 9999))
    other_nodup = other.split("def worker_two")[0]
    third_ignored = "# thailint: ignore-file[dry]\n" + third
    app_nomode = app.replace('("fast", "slow", "medium")', '("a",)')
    app_line_ignored = app.replace('    if mode in ("fast", "slow", "medium"):\n        return mode',
                                   '    if mode in ("fast", "slow", "medium"):  # thailint: ignore[stringly-typed]\n        return mode')
    app_magic_ignored = app.replace("total += item * 37", "total += item * 37  # thailint: ignore[magic-numbers]")
    app_file_ignored = "# thailint: ignore-file[magic-numbers]\n" + app
    app_file_ignored_all = "# thailint: ignore-file\n" + app
    tool_sh = "#!/bin/bash\necho 31337\n"
    tool_py = "#!/usr/bin/env python3\ndef tool_main(a):\n    print(a)\n    return a * 31337\n"
    return {
        "tool": [tool_sh, tool_py, "plain text 31337\n", tool_py.replace("31337", "31338")],
        "src/app.py": [app, app_nomode, app + "\n\ndef extra(a):\n    return a * 31337\n", app_line_ignored, app_magic_ignored, app_file_ignored, app_file_ignored_all],
        "src/other.py": [other, other_nodup, nodup],
        "src/third.py": [third, third_ignored, nodup],
        "src/web.ts": [web, web.replace("console.log", "logger.info")],
        "src/core.rs": [core, core.replace(".unwrap()", ".unwrap_or_default()")],
        "pkg/more.py": [third.replace("worker_three", "worker_four"), nodup, other],
    }


def gen_history(rng, tag, nops):
    pool = variants(rng, tag)
    # the first contact with a file may be with any of its variants (what is remembered from the first contact is what goes stale)
    state = {k: (v[0] if rng.random() < 0.5 else rng.choice(v)) for k, v in pool.items() if k != "pkg/more.py"}
    init = dict(state)
    ops = []
    last_lint = None
    for _ in range(nops):
        r = rng.random()
        if r < 0.45 or not ops:
            kind = rng.choice(["dir", "dir", "subdir", "file", "files", "repeat", "single"])
            if kind == "repeat" and last_lint:
                ops.append(dict(last_lint))
                continue
            if kind == "dir":
                op = {"op": "lint", "target": "."}
            elif kind == "subdir":
                op = {"op": "lint", "target": rng.choice(["src", "pkg"])}
            elif kind == "file":
                op = {"op": "lint", "target": rng.choice(sorted(pool))}
            elif kind == "single":
                # the documented one-file entry point of the orchestrator (Orchestrator.lint_file); for the Linter API: lint(<file>)
                op = {"op": "lint", "target": rng.choice(sorted(pool)), "single": True}
            else:
                k = sorted(state)
                op = {"op": "lint_files", "targets": rng.sample(k, rng.randint(1, len(k))) if k else []}
            ops.append(op)
            last_lint = op
        elif r < 0.7:
            f = rng.choice(sorted(pool))
            content = rng.choice(pool[f])
            ops.append({"op": "write", "file": f, "content": content})
            state[f] = content
        elif r < 0.82 and state:
            f = rng.choice(sorted(state))
            ops.append({"op": "delete", "file": f})
            del state[f]
        elif r < 0.9 and state:
            ops.append({"op": "touch", "file": rng.choice(sorted(state))})
        else:
            f = "pkg/more.py"
            content = rng.choice(pool[f])
            ops.append({"op": "write", "file": f, "content": content})
            state[f] = content
    ops.append({"op": "lint", "target": "."})
    # the repository-level ignore file edited between two objects of one process
    for content in (rng.choice(sorted(pool)) + "\n", "pkg/\n*.ts\n", "# nothing ignored any more\n"):
        ops += [{"op": "write", "file": ".thailintignore", "content": content}, {"op": "renew"}, {"op": "lint", "target": "."}, {"op": "lint", "target": rng.choice(sorted(pool))}]
    return init, ops


PINNED = {
    # born plain: suppressions added then removed, an extension-less script changing kind between calls
    "plain": ({}, (("src/app.py", (3, 0, 4, 0, 5, 0, 6, 2, 0)), ("src/third.py", (1, 0, 2, 0)), ("tool", (1, 0, 3, 2, 1)))),
    # born suppressed: the object's first contact with each file is with the directive present, then it is removed
    "born-ignored": ({"src/app.py": 5, "src/third.py": 1, "tool": 1}, (("src/app.py", (0, 6, 0, 3, 0, 4, 0)), ("src/third.py", (0, 1, 2)), ("tool", (0, 1)))),
    "born-ignored-all": ({"src/app.py": 6, "src/third.py": 1}, (("src/app.py", (2, 5, 0)), ("src/third.py", (2, 0)))),
}


def pinned_history(rng, tag, which="plain"):
    """Deterministic histories (see PINNED)."""
    pool = variants(rng, tag)
    born, plan = PINNED[which]
    init = {k: v[born.get(k, 0)] for k, v in pool.items() if k != "pkg/more.py"}
    ops = [{"op": "lint", "target": "."}] + [{"op": "lint", "target": f} for f in sorted(born)]
    # the one-file entry point, then a run over the OTHER files: what the first call saw must not come back in the second
    for f in sorted(init):
        ops.append({"op": "lint", "target": f, "single": True})
        ops.append({"op": "lint_files", "targets": [g for g in sorted(init) if g != f]})
    for f, idxs in plan:
        for i in idxs:
            ops.append({"op": "write", "file": f, "content": pool[f][i]})
            ops.append({"op": "lint", "target": "."})
            ops.append({"op": "lint", "target": f})
    return init, ops


def apply_fs(root, op):
    p = os.path.join(root, op["file"])
    if op["op"] == "write":
        os.makedirs(os.path.dirname(p), exist_ok=True)
        with open(p, "w", encoding="utf-8") as f:
            f.write(op["content"])
    elif op["op"] == "delete":
        if os.path.exists(p):
            os.unlink(p)
    elif op["op"] == "touch":
        if os.path.exists(p):
            os.utime(p)


def history_case(case):
    """Runs in a forked child: ONE long-lived object through the whole script."""
    from pathlib import Path

    root = runner.new_dir("h")
    files = dict(case["init"])
    files[".thailint.yaml"] = case["config"]
    runner.write_tree(root, files)
    os.chdir(root)
    os.environ["THAILINT_VERIF_FAILLOG"] = os.path.join(root, ".git", "faillog")
    from src import Linter
    from src.orchestrator.core import Orchestrator

    obj = Linter(project_root=root) if case["api"] == "linter" else Orchestrator(project_root=Path(root))
    results = []
    for op in case["ops"]:
        if op["op"] in ("write", "delete", "touch"):
            apply_fs(root, op)
            results.append(None)
            continue
        if op["op"] == "renew":
            # a NEW object in the same long-lived process (the repository-level ignore file may have been edited since the first one was made)
            obj = Linter(project_root=root) if case["api"] == "linter" else Orchestrator(project_root=Path(root))
            results.append(None)
            continue
        try:
            if case["api"] == "linter":
                if op["op"] == "lint":
                    vs = obj.lint(op["target"] if op["target"] != "." else root)
                else:
                    vs = []
                    for t in op["targets"]:
                        vs.extend(obj.lint(t))
            else:
                if op["op"] == "lint":
                    p = Path(root) / op["target"]
                    if p.is_dir():
                        vs = obj.lint_directory(p)
                    elif p.is_file():
                        vs = obj.lint_file(p) if op.get("single") else obj.lint_files([p])
                    else:
                        vs = []
                else:
                    vs = obj.lint_files([Path(root) / t for t in op["targets"] if (Path(root) / t).exists()])
            results.append({"v": sorted(vtuple(v, root) for v in vs), "exists": sorted(
                os.path.relpath(os.path.join(dp, f), root) for dp, dn, fn in os.walk(root) if ".git" not in dp for f in fn)})
        except Exception as e:  # noqa: BLE001
            results.append({"error": "%s: %s" % (type(e).__name__, e)})
    return results


def spec_case(arg):
    """Fresh object, pristine process, same disk state and call."""
    from pathlib import Path

    files, config, api, op = arg
    root = runner.new_dir("s")
    files = dict(files)
    files[".thailint.yaml"] = config
    runner.write_tree(root, files)
    os.chdir(root)
    os.environ["THAILINT_VERIF_FAILLOG"] = os.path.join(root, ".git", "faillog")
    from src import Linter
    from src.orchestrator.core import Orchestrator

    try:
        if api == "linter":
            if op["op"] == "lint":
                vs = Linter(project_root=root).lint(op["target"] if op["target"] != "." else root)
            else:
                vs = []
                for t in op["targets"]:
                    vs.extend(Linter(project_root=root).lint(t))
        else:
            o = Orchestrator(project_root=Path(root))
            if op["op"] == "lint":
                p = Path(root) / op["target"]
                vs = o.lint_directory(p) if p.is_dir() else (o.lint_file(p) if op.get("single") else o.lint_files([p])) if p.is_file() else []
            else:
                vs = o.lint_files([Path(root) / t for t in op["targets"] if (Path(root) / t).exists()])
        return {"v": sorted(vtuple(v, root) for v in vs)}
    except Exception as e:  # noqa: BLE001
        return {"error": "%s: %s" % (type(e).__name__, e)}


# ----------------------------------------------------------------------------- (d) side effects
def snapshot(root):
    snap = {}
    for dp, dn, fn in os.walk(root):
        for name in dn + fn:
            p = os.path.join(dp, name)
            st = os.lstat(p)
            rel = os.path.relpath(p, root)
            if os.path.isfile(p):
                with open(p, "rb") as f:
                    h = hashlib.sha256(f.read()).hexdigest()
                snap[rel] = [oct(st.st_mode), st.st_size, h, st.st_mtime_ns]
            else:
                snap[rel] = [oct(st.st_mode), "dir"]
    return snap


AUDIT_SRC = r'''
import sys, os, json
_log = os.environ["VERIF_AUDIT_LOG"]
_root = os.environ["VERIF_AUDIT_ROOT"]
def _w(rec):
    try:
        fd = os.open(_log, os.O_WRONLY | os.O_CREAT | os.O_APPEND, 0o600)
        os.write(fd, (json.dumps(rec) + "\n").encode()); os.close(fd)
    except Exception:
        pass
def _hook(ev, args):
    try:
        if ev == "open":
            path, mode, flags = args
            if isinstance(path, (str, bytes)) and isinstance(flags, int) and (flags & (os.O_WRONLY | os.O_RDWR | os.O_CREAT | os.O_TRUNC | os.O_APPEND)):
                _w({"ev": "open-write", "path": os.fsdecode(path), "pid": os.getpid()})
        elif ev in ("os.remove", "os.rename", "os.mkdir", "os.rmdir", "os.chmod", "os.truncate", "os.utime", "os.link", "os.symlink",
                    "shutil.copyfile", "shutil.move", "shutil.rmtree", "tempfile.mkstemp", "tempfile.mkdtemp", "sqlite3.connect"):
            _w({"ev": ev, "path": " ".join(os.fsdecode(a) if isinstance(a, (str, bytes)) else str(a) for a in args[:2]), "pid": os.getpid()})
    except Exception:
        pass
sys.addaudithook(_hook)
from src.cli_main import cli
sys.argv[0] = "thailint"
cli.main(prog_name="thailint")
'''


def effects_case(case):
    base = runner.new_dir("e")
    root = os.path.join(base, "proj")
    tmpd = os.path.join(base, "tmpdir")
    home = os.path.join(base, "home")
    os.makedirs(tmpd)
    os.makedirs(home)
    runner.write_tree(root, case["files"])
    launcher = os.path.join(base, "launch.py")
    with open(launcher, "w") as f:
        f.write(AUDIT_SRC)
    audit = os.path.join(base, "audit.jsonl")
    before = snapshot(root)
    env = dict(runner.base_env(), TMPDIR=tmpd, HOME=home, XDG_CONFIG_HOME=os.path.join(home, ".config"), VERIF_AUDIT_LOG=audit, VERIF_AUDIT_ROOT=root)
    env["THAILINT_VERIF_FAILLOG"] = os.path.join(base, "faillog")
    import subprocess
    p = subprocess.run(["/venv/bin/python", launcher] + case["argv"], cwd=root, env=env, capture_output=True, timeout=300, stdin=subprocess.DEVNULL)
    after = snapshot(root)
    events = runner._read_faillog(audit)
    under = [e for e in events if isinstance(e.get("path"), str) and any(
        part == root or part.startswith(root + "/") for part in e["path"].split(" "))]
    return {"exit": p.returncode, "before": before, "after": after, "tmp_left": sorted(os.listdir(tmpd)), "home_left": sorted(
        os.path.relpath(os.path.join(dp, f), home) for dp, dn, fn in os.walk(home) for f in fn),
        "events": Counter(e.get("ev") for e in events), "under_project": under[:10], "n_pids": len({e.get("pid") for e in events}),
        "err": p.stderr.decode("utf-8", "replace")[-300:] if p.returncode not in (0, 1) else ""}


def order_case(case):
    root = runner.new_dir("o")
    runner.write_tree(root, case["files"])
    out = []
    for targets in case["orders"]:
        r = runner.cli([case["cmd"], "--format", "json"] + targets, root)
        vs = r.violations()
        out.append({"exit": r.exit, "v": None if vs is None else sorted([v["rule_id"], v["file_path"], v["line"], v["column"], v["message"]] for v in vs)})
    return out


def crowded(tag, n=8):
    """More places than any "also found in" list prints: the n-th call site / occurrence / file must not be picked by luck."""
    files = {}
    for i in range(n):
        files["crowd/calls_%s_%d.py" % (tag, i)] = (
            "from crowd.engine_%s import apply_mode_%s\n\n\ndef use_%s_%d(engine):\n    apply_mode_%s(engine, \"%s\")\n    apply_mode_%s(engine, \"slow\")\n    return engine\n"
            % (tag, tag, tag, i, tag, "fast" if i % 2 else "eco", tag))
        files["crowd/calls_%s_%d.ts" % (tag, i)] = (
            "export function useTs%s%d(engine: any): void {\n  engine.applyShade%s(\"%s\");\n  engine.applyShade%s(\"dark\");\n}\n" % (tag, i, tag, "light" if i % 2 else "dim", tag))
        files["crowd/same_%s_%d.py" % (tag, i)] = (
            "def same_%s_%d(alpha, beta):\n    crowd_gamma_%s = alpha + beta\n    crowd_delta_%s = crowd_gamma_%s * alpha\n    crowd_eps_%s = crowd_delta_%s - beta\n    return crowd_eps_%s\n\n\n"
            "def pick_%s_%d(kind):\n    if kind in (\"crowd_a_%s\", \"crowd_b_%s\", \"crowd_c_%s\"):\n        return 1\n    return 0\n" % ((tag, i) + (tag,) * 6 + (tag, i) + (tag,) * 3))
    files["crowd/engine_%s.py" % tag] = "def apply_mode_%s(engine, mode):\n    engine.mode = mode\n    return engine\n" % tag
    return files


def seed_case(case):
    root = runner.new_dir("d")
    runner.write_tree(root, case["files"])
    out = {}
    for hs in case["seeds"]:
        r = runner.cli_real([case["cmd"], "--format", "json", "."], root, env={"PYTHONHASHSEED": hs})
        vs = r.violations()
        out[hs] = {"exit": r.exit, "v": None if vs is None else sorted([v["rule_id"], v["file_path"], v["line"], v["column"], v["message"]] for v in vs)}
    return out


def stale_key(only_reused, only_fresh):
    fams = {r[0].split(".")[0] for r in only_reused + only_fresh}
    if fams and fams <= {"dry"}:
        return "reused-object-differs:dry"
    if fams and fams <= {"stringly-typed"}:
        return "reused-object-differs:stringly-typed"
    return "reused-object-differs:" + "+".join(sorted(fams))


def run(ctx):
    ctx.rule = ("(a) permutations of file arguments; (b) PYTHONHASHSEED values on the real CLI; (c) histories of lint/edit/delete/add/touch operations on one "
                "long-lived Linter/Orchestrator, each lint call compared with a fresh object in a pristine process; (d) side-effect runs. distinct non-trivial = "
                "(monitor, command/api, step signature) where the specification side has >= 1 violation or the project tree was snapshotted")
    ctx.assumptions = ["specification of a lint call = a fresh object in a freshly forked pristine process on the same disk state (re-materialised from the script)",
                       "messages are compared after removing the absolute project-root prefix", "--clear-cache is excluded from the side-effect clause (a requested deletion)"]
    rng = ctx.rng()
    # ---- (a) order ------------------------------------------------------------------------------------------
    jobs = []
    for i in range(ctx.size(2, 8)):
        files = triggers.random_files(rng, tag="o%d" % i)
        more = triggers.random_files(rng, tag="p%d" % i)
        files.update({k: v for k, v in more.items() if k != ".thailint.yaml"})
        # leak bait: each module aliases a library under the name the other uses for an unrelated parameter
        files["src/bait_a.py"] = ("import re as rx\n\n\ndef scan_a(lines, pat):\n    out = []\n    for line in lines:\n        if pat.match(line):\n            out.append(line)\n    return out\n\n\n"
                                  "def by_alias(lines):\n    return [line for line in lines if rx.match(\"x\", line)]\n")
        files["src/bait_b.py"] = ("import re as pat\n\n\ndef scan_b(lines, rx):\n    out = []\n    for line in lines:\n        if rx.match(line):\n            out.append(line)\n    return out\n\n\n"
                                  "def by_alias_b(lines):\n    return [line for line in lines if pat.match(\"y\", line)]\n")
        # three-way bait: a constant and a block shared by three files (the finding for one file lists the two other places)
        files[".thailint.yaml"] = files[".thailint.yaml"].replace("  min_duplicate_lines: 3\n", "  min_duplicate_lines: 3\n  detect_duplicate_constants: true\n", 1)
        for nm in ("x", "y", "z"):
            files["src/tri_%s.py" % nm] = ("RETRY_LIMIT_MS_%d = 4217\nONLY_%s_%d = 1\n\n\ndef tri_%s_%d(alpha, beta):\n    gamma_%d = alpha + beta\n    delta_%d = gamma_%d * alpha\n"
                                            "    epsilon_%d = delta_%d - beta\n    return epsilon_%d\n") % (i, nm.upper(), i, nm, i, i, i, i, i, i, i)
        if i % 2 == 0:
            files.update(crowded("o%d" % i, 7 + i))
        srcs = sorted(f for f in files if not f.startswith("."))
        for cmd in ["dry", "stringly-typed", "magic-numbers", "nesting", "srp", "improper-logging", "unwrap-abuse", "file-header", "perf", "lbyl", "method-property"]:
            orders = []
            for _ in range(4 if ctx.quick else 12):
                o = list(srcs)
                rng.shuffle(o)
                orders.append(o)
            orders.append(sorted(srcs, reverse=True))
            jobs.append({"files": files, "cmd": cmd, "orders": [srcs] + orders, "id": "order%d:%s" % (i, cmd)})
    for job, o in zip(jobs, runner.pmap(order_case, jobs, timeout=600)):
        if not o.get("ok"):
            ctx.inconclusive_if(True, "order case failed: %s" % str(o)[:300])
            continue
        ref = o["value"][0]
        for k, r in enumerate(o["value"][1:]):
            ctx.evaluations += 1
            ctx.count("order_permutations")
            if ref["v"]:
                ctx.nontrivial(["order", job["cmd"], k, job["id"]])
            if r != ref:
                a, b = Counter(map(tuple, ref["v"] or [])), Counter(map(tuple, r["v"] or []))
                ctx.discrepancy("order-dependent:%s" % job["cmd"], "%s: argument order %d changes the result: lost %r gained %r (exit %s vs %s)" % (
                    job["id"], k, list((a - b).elements())[:2], list((b - a).elements())[:2], ref["exit"], r["exit"]),
                    {"argv": [job["cmd"], "--format", "json"] + job["orders"][k + 1]}, job["files"])
    # ---- (b) hash seed ------------------------------------------------------------------------------------
    seeds = ["0", "1", "2", "3", "random"] if ctx.quick else [str(i) for i in range(24)] + ["random"]
    files = triggers.random_files(rng, tag="s")
    files.update({k: v for k, v in triggers.random_files(rng, tag="t").items() if k != ".thailint.yaml"})
    files.update(crowded("s", 9))
    jobs = [{"files": files, "cmd": c, "seeds": seeds} for c in (["dry", "stringly-typed", "magic-numbers", "srp"] if ctx.quick else triggers.CMDS)]
    for job, o in zip(jobs, runner.pmap(seed_case, jobs, timeout=900)):
        if not o.get("ok"):
            ctx.inconclusive_if(True, "seed case failed: %s" % str(o)[:300])
            continue
        ref = o["value"][seeds[0]]
        for hs in seeds[1:]:
            ctx.evaluations += 1
            ctx.count("hash_seeds_compared")
            if ref["v"]:
                ctx.nontrivial(["seed", job["cmd"], hs])
            if o["value"][hs] != ref:
                ctx.discrepancy("hash-seed-dependent:%s" % job["cmd"], "`%s` differs between PYTHONHASHSEED=%s and %s" % (job["cmd"], seeds[0], hs),
                                {"argv": [job["cmd"], "--format", "json", "."], "env": {"PYTHONHASHSEED": hs}}, job["files"])
    # ---- (c) histories -------------------------------------------------------------------------------------
    hjobs = []
    for i in range(ctx.size(6, 60)):
        init, ops = gen_history(rng, "h%d" % i, rng.randint(12, 30) if ctx.quick else rng.randint(20, 60))
        hjobs.append({"init": init, "ops": ops, "config": CFG_TMP if i % 3 == 2 else CFG_MEM, "api": "linter" if i % 2 == 0 else "orchestrator", "id": "hist%d" % i})
    for api in ("linter", "orchestrator"):
        for which in sorted(PINNED):
            init, ops = pinned_history(rng, "hp", which)
            hjobs.append({"init": init, "ops": ops, "config": CFG_MEM, "api": api, "id": "hist-pinned-%s-%s" % (which, api)})
    houts = runner.pmap(history_case, hjobs, timeout=900)
    spec_jobs, spec_meta = [], []
    for job, o in zip(hjobs, houts):
        if not o.get("ok"):
            ctx.inconclusive_if(True, "history %s failed in harness: %s" % (job["id"], str(o)[:300]))
            continue
        state = dict(job["init"])
        for k, (op, res) in enumerate(zip(job["ops"], o["value"])):
            if op["op"] == "write":
                state[op["file"]] = op["content"]
            elif op["op"] == "delete":
                state.pop(op["file"], None)
            elif op["op"] in ("lint", "lint_files"):
                spec_jobs.append((dict(state), job["config"], job["api"], op))
                spec_meta.append((job, k, res, dict(state)))
    ctx.obs["history_ops"] = dict(Counter(op["op"] for j in hjobs for op in j["ops"]))
    ctx.obs["history_lengths"] = sorted(len(j["ops"]) for j in hjobs)
    souts = runner.pmap(spec_case, spec_jobs, timeout=600)
    for (job, k, res, state), so in zip(spec_meta, souts):
        ctx.evaluations += 1
        if not so.get("ok"):
            ctx.inconclusive_if(True, "spec run failed in harness: %s" % str(so)[:300])
            continue
        spec = so["value"]
        op = job["ops"][k]
        rep = {"history": job["id"], "api": job["api"], "step": k, "op": op, "ops_so_far": [
            {kk: (vv if kk != "content" else "<%d bytes>" % len(vv)) for kk, vv in o2.items()} for o2 in job["ops"][:k + 1]]}
        ctx.count("fresh_vs_reused_compared")
        if "error" in res or "error" in spec:
            if ("error" in res) != ("error" in spec):
                ctx.discrepancy("reused-object-error", "%s step %d: reused %r fresh %r" % (job["id"], k, res.get("error"), spec.get("error")), rep, state)
            continue
        a, b = Counter(map(tuple, res["v"])), Counter(map(tuple, spec["v"]))
        if b:
            ctx.nontrivial(["history", job["api"], op["op"], op.get("target", len(op.get("targets", []))), k])
        if a != b:
            only_reused, only_fresh = list((a - b).elements()), list((b - a).elements())
            ctx.discrepancy(stale_key(only_reused, only_fresh), "%s (%s) step %d %s: reused object reports %d findings a fresh object does not (e.g. %r) and misses %d (e.g. %r)" % (
                job["id"], job["api"], k, {kk: vv for kk, vv in op.items()}, len(only_reused), only_reused[:1], len(only_fresh), only_fresh[:1]),
                dict(rep, expected=only_fresh[:4], observed=only_reused[:4]), state)
        # invariants on the history itself
        gone = [t for t in a if t[1] not in res["exists"] and not os.path.isabs(t[1])]
        if gone:
            ctx.discrepancy("reports-vanished-path:" + gone[0][0].split(".")[0], "%s step %d: violation for a path that no longer exists: %r" % (job["id"], k, gone[0]), rep, state)
        dup = [t for t, c in a.items() if c > 1]
        if dup and not [t for t, c in b.items() if c > 1]:
            ctx.discrepancy("duplicate-report:" + dup[0][0].split(".")[0], "%s step %d: the same violation appears %d times: %r" % (job["id"], k, a[dup[0]], dup[0]), rep, state)
    # ---- (d) side effects -----------------------------------------------------------------------------------
    ejobs = []
    base = triggers.random_files(rng, tag="e")
    big = dict(base)
    for j in range(4):
        big.update({k: v for k, v in triggers.random_files(rng, tag="e%d" % j).items() if k != ".thailint.yaml"})
    for cmd in (triggers.CMDS if not ctx.quick else ["dry", "stringly-typed", "magic-numbers", "nesting", "file-placement", "file-header", "lazy-ignores", "srp", "perf", "unwrap-abuse"]):
        for mode, cfg in (("memory", CFG_MEM), ("tempfile", CFG_TMP)):
            if mode == "tempfile" and cmd not in ("dry", "stringly-typed", "magic-numbers"):
                continue
            for par in (False, True):
                for fmt in (("json",) if ctx.quick else ("text", "json", "sarif")):
                    files = dict(big if par else base)
                    files[".thailint.yaml"] = cfg + "file-placement:\n  global_deny:\n    - pattern: \".*third.*\"\n      reason: \"x\"\n"
                    ejobs.append({"files": files, "argv": [cmd, "--format", fmt] + (["--parallel"] if par else []) + ["."],
                                  "id": "fx:%s:%s:%s:%s" % (cmd, mode, "par" if par else "seq", fmt)})
    for job, o in zip(ejobs, runner.pmap(effects_case, ejobs, timeout=900, workers=8)):
        ctx.evaluations += 1
        if not o.get("ok"):
            ctx.inconclusive_if(True, "effects case failed: %s" % str(o)[:300])
            continue
        v = o["value"]
        ctx.count("side_effect_runs")
        ctx.nontrivial(["effects", job["id"]])
        for ev, c in v["events"].items():
            ctx.counters["audit:" + str(ev)] += c
        ctx.obs["max_pids_in_audit"] = max(ctx.obs.get("max_pids_in_audit", 0), v["n_pids"])
        rep = {"argv": job["argv"], "id": job["id"]}
        if v["exit"] not in (0, 1):
            ctx.inconclusive_if(True, "%s: exit %s %s" % (job["id"], v["exit"], v["err"]))
            continue
        if v["before"] != v["after"]:
            changed = sorted(set(k for k in set(v["before"]) | set(v["after"]) if v["before"].get(k) != v["after"].get(k)))
            ctx.discrepancy("project-tree-modified:" + job["argv"][0], "%s: project tree changed: %s" % (job["id"], changed[:5]), rep, job["files"])
        if v["tmp_left"]:
            ctx.discrepancy("temp-files-left:" + job["argv"][0], "%s: TMPDIR not empty after exit: %s" % (job["id"], v["tmp_left"][:5]), rep, job["files"])
        if v["home_left"]:
            ctx.discrepancy("home-files-left:" + job["argv"][0], "%s: files created under HOME: %s" % (job["id"], v["home_left"][:5]), rep, job["files"])
        if v["under_project"]:
            ctx.discrepancy("write-under-project:" + job["argv"][0], "%s: mutation attempt under the project: %s" % (job["id"], v["under_project"][:3]), rep, job["files"])
    ctx.sample({"history": hjobs[0]["id"], "api": hjobs[0]["api"], "ops": [{k: (v if k != "content" else "<%d bytes>" % len(v)) for k, v in op.items()} for op in hjobs[0]["ops"][:12]]})
    ctx.inconclusive_if(ctx.counters["fresh_vs_reused_compared"] < 20, "fewer than 20 fresh-vs-reused comparisons")
    ctx.inconclusive_if(ctx.counters["audit:open-write"] + ctx.counters["audit:sqlite3.connect"] + ctx.counters["audit:tempfile.mkstemp"] == 0,
                        "audit hook observed no event at all (monitor disconnected)")
