"""C02 - magic numbers: exactly the non-allowed literals outside exemptions, once each, right line, right value.

Monitor: boundary trace of `thailint magic-numbers` on generated programs whose literal occurrences (line, value,
lexical form, exemption category) are known by construction. Oracles: (a) exact multiset equality per file and
configuration; (b) delta law for allowed_numbers; (c) max_small_integer only affects range()/enumerate() literals.
"""
from __future__ import annotations

import json
import re
from collections import Counter

from .. import runner
from ..gen import ctrl, lits

MSG = re.compile(r"^Magic number (\S+) should be a named constant")
DEFAULT_ALLOWED = [-1, 0, 1, 2, 3, 4, 5, 10, 100, 1000]


def num(text):
    t = text.replace("_", "")
    try:
        return int(t, 0)
    except ValueError:
        pass
    try:
        return float(t)
    except ValueError:
        return None


def make_case(rng, idx, forms=True):
    max_small = rng.choice([10, 10, 3, 20, 1, 7])
    files, occ = {}, {}
    py, o = lits.gen_py(rng, rng.randint(10, 40), max_small, forms)
    files["pkg/mod%d.py" % idx], occ["pkg/mod%d.py" % idx] = py, o
    ts, o = lits.gen_ts(rng, rng.randint(8, 30), False, forms)
    files["pkg/mod%d.ts" % idx], occ["pkg/mod%d.ts" % idx] = ts, o
    js, o = lits.gen_ts(rng, rng.randint(8, 20), True, forms)
    files["pkg/mod%d.js" % idx], occ["pkg/mod%d.js" % idx] = js, o
    rs, o = lits.gen_rs(rng, rng.randint(8, 30), forms)
    files["pkg/mod%d.rs" % idx], occ["pkg/mod%d.rs" % idx] = rs, o
    # exempt-by-name files: everything in them is exempt
    if rng.random() < 0.5:
        t, o = lits.gen_py(rng, 8, max_small, False)
        tmpl = rng.choice(["pkg/test_mod%d.py", "pkg/mod%d_test.py", "pkg/constants.py", "pkg/app%d_constants.py"])
        name = tmpl % idx if "%d" in tmpl else tmpl
        files[name] = t
        occ[name] = [dict(x, cat="exempt-file") for x in o]
    if rng.random() < 0.4:
        t, o = lits.gen_ts(rng, 8, False, False)
        name = rng.choice(["pkg/mod%d.test.ts", "pkg/mod%d.spec.ts"]) % idx
        files[name] = t
        occ[name] = [dict(x, cat="exempt-file") for x in o]
    # look-alikes: names and directories that merely CONTAIN a test marker (latest_api/, contest_3.js, attestation.py) are ordinary production files
    if rng.random() < 0.5:
        t, o = lits.gen_ts(rng, 6, False, False)
        name = rng.choice(["pkg/latest_api/client%d.ts", "pkg/contest_%d.ts", "pkg/protest_data/mod%d.ts", "pkg/spectest.specs/m%d.ts"]) % idx
        files[name], occ[name] = t, o
        t, o = lits.gen_ts(rng, 6, True, False)
        name = rng.choice(["pkg/greatest_hits/m%d.js", "pkg/attest_%d.js"]) % idx
        files[name], occ[name] = t, o
        t, o = lits.gen_py(rng, 6, max_small, False)
        name = rng.choice(["pkg/contest_mod%d.py", "pkg/latest_%d.py", "pkg/my_test.pyx_%d.py"]) % idx
        files[name], occ[name] = t, o
    values = sorted({x["value"] for f in occ for x in occ[f] if x["cat"] == "plain" and isinstance(x["value"], int)})
    allowed = set(rng.sample(DEFAULT_ALLOWED, rng.randint(0, len(DEFAULT_ALLOWED))))
    allowed |= set(rng.sample(values, min(len(values), rng.randint(0, 6))))
    allowed |= {rng.randint(100000, 200000)}  # decoy
    extra = rng.choice([v for v in values if v not in allowed] or [424242])
    lang_over = {}
    for lang in ("python", "typescript", "javascript", "rust"):
        if rng.random() < 0.2:
            lang_over[lang] = sorted(set(rng.sample(DEFAULT_ALLOWED, rng.randint(0, 5))) | set(rng.sample(values, min(len(values), rng.randint(0, 4)))))
    return {"idx": idx, "files": files, "occ": occ, "allowed": sorted(allowed), "max_small": max_small, "extra": extra,
            "carrier": rng.choice(["yaml", "json"]), "lang_over": lang_over}


LANG_OF = {"py": "python", "ts": "typescript", "js": "javascript", "rs": "rust"}


def eff_allowed(case, f, allowed):
    """Effective allowed_numbers for a file: its language section if there is one, else the top-level list."""
    return case.get("lang_over", {}).get(LANG_OF.get(f.rsplit(".", 1)[1]), allowed)


def cfg_files(case, allowed, max_small):
    sec = {"enabled": True, "allowed_numbers": allowed, "max_small_integer": max_small}
    for lang, nums in case.get("lang_over", {}).items():
        sec[lang] = {"allowed_numbers": nums}   # partial section: max_small_integer stays with the top-level value
    if case["carrier"] == "yaml":
        import yaml
        return {".thailint.yaml": yaml.safe_dump({"magic-numbers": sec})}
    return {".thailint.json": json.dumps({"magic-numbers": sec})}


def exec_case(case):
    bad = [f for f, t in case["files"].items() if not ctrl.syntax_ok(f.rsplit(".", 1)[1], t)]
    if bad:
        return {"generator_inconsistent": bad}
    out = {"runs": {}}
    variants = {"A": (case["allowed"], case["max_small"]), "A+v": (sorted(set(case["allowed"]) | {case["extra"]}), case["max_small"]),
                "m+": (case["allowed"], case["max_small"] + 5)}
    for name, (allowed, ms) in variants.items():
        d = runner.new_dir("m")
        runner.write_tree(d, dict(case["files"], **cfg_files(case, allowed, ms)))
        r = runner.cli(["magic-numbers", "--format", "json", "."], d)
        vs = r.violations()
        rows = None
        if vs is not None:
            rows = []
            for v in vs:
                m = MSG.match(v["message"])
                rows.append([v["file_path"], v["line"], m.group(1) if m else None, v["rule_id"], v["column"], v["message"]])
        out["runs"][name] = {"exit": r.exit, "rows": rows, "err": r.err[-300:] if rows is None else "", "swallowed": len(r["swallowed"])}
    return out


def expected_rows(case, allowed, max_small_delta=0):
    exp = Counter()
    for f, occ in case["occ"].items():
        aset = set(eff_allowed(case, f, allowed))
        for o in occ:
            cat = o["cat"]
            if cat in ("range", "enumerate"):
                continue
            if cat == "plain" and o.get("neg") and ((o["value"] in aset) != (-o["value"] in aset)):
                continue  # '-v' with exactly one of v / -v allowed: documentation does not say which is looked up
            if cat == "plain" and o["value"] not in aset:
                exp[(f, o["line"], o["value"])] += 1
    return exp


def classify(f, line, case, direction, got_text):
    occ = [o for o in case["occ"].get(f, []) if o["line"] == line]
    lang = f.rsplit(".", 1)[1]
    if not occ:
        return "%s:%s:line-without-literal" % (direction, lang)
    o = occ[0]
    if direction == "missed" and re.search(r"latest_api/|contest_|protest_data/|spectest\.specs/|greatest_hits/|attest_|latest_\d|my_test\.pyx_", f):
        return "missed:%s:file-merely-contains-a-test-marker" % lang
    if not o.get("text"):
        return "%s:%s:%s:no-literal" % (direction, lang, o["cat"])
    form = "float" if isinstance(o["value"], float) else "hex" if o["text"].lower().startswith("0x") else "oct" if o["text"].lower().startswith("0o") else \
        "bin" if o["text"].lower().startswith("0b") else "underscore" if "_" in o["text"] else "suffixed" if re.search(r"[a-z]", o["text"].lower().replace("e", "")) else "int"
    return "%s:%s:%s:%s" % (direction, lang, o["cat"], form)


def run(ctx):
    ctx.rule = ("case = generated py/ts/js/rs files with literal occurrences known by construction x (allowed_numbers, max_small_integer) configuration; "
                "distinct non-trivial = (file language, sorted categories and lexical forms present, #expected violations bucket)")
    ctx.assumptions = ["ground truth recorded by the generator (line, value, form, category); one literal per line",
                       "message value compared numerically (0x1F may be named 31)", "files between 'ordinary' and 'definition module' thresholds are not generated",
                       "range()/enumerate() literals above max_small_integer and unary-minus literals are not judged in the exact oracle"]
    rng = ctx.rng()
    cases = [make_case(rng, i) for i in range(ctx.size(200, 2500))]
    outs = runner.pmap(exec_case, cases, timeout=600)
    for case, o in zip(cases, outs):
        if not o.get("ok"):
            ctx.inconclusive_if(True, "case %d failed in harness: %s" % (case["idx"], str(o)[:300]))
            continue
        v = o["value"]
        if v.get("generator_inconsistent"):
            ctx.count("generator_inconsistent")
            continue
        runs = v["runs"]
        if any(r["rows"] is None or r["exit"] not in (0, 1) for r in runs.values()):
            ctx.inconclusive_if(True, "case %d: magic-numbers run failed: %s" % (case["idx"], [r["err"] for r in runs.values() if r["rows"] is None][:1]))
            continue
        files = dict(case["files"], **cfg_files(case, case["allowed"], case["max_small"]))
        rep = {"argv": ["magic-numbers", "--format", "json", "."], "allowed": case["allowed"], "max_small": case["max_small"]}
        range_lines = {(f, o2["line"]) for f, occ in case["occ"].items() for o2 in occ if o2["cat"] in ("range", "enumerate")}
        range_plain = {(f, o2["line"]) for f, occ in case["occ"].items() for o2 in occ if o2["cat"] == "plain" and "range(" in case["files"][f].split("\n")[o2["line"] - 1]
                       or o2["cat"] == "plain" and "enumerate(" in case["files"][f].split("\n")[o2["line"] - 1]}
        obs = {}
        for name, r in runs.items():
            ctx.evaluations += 1
            c = Counter()
            for f, line, val, rule, col, msg in r["rows"]:
                if rule != "magic-numbers.numeric-literal" or val is None:
                    ctx.discrepancy("unexpected-row", "case %d: %r" % (case["idx"], [f, line, rule, msg]), rep, files)
                    continue
                c[(f, line, num(val))] += 1
            obs[name] = c
        # (a) exact equality for configuration A (range/enumerate lines judged separately)
        exp = expected_rows(case, case["allowed"])
        unjudged = {(f, o2["line"]) for f, occ in case["occ"].items() for o2 in occ
                    if o2.get("neg") and ((o2["value"] in eff_allowed(case, f, case["allowed"])) != (-o2["value"] in eff_allowed(case, f, case["allowed"])))}
        range_plain |= unjudged
        got = Counter({(k[0], k[1], abs(k[2]) if k[2] is not None and (k[0], k[1]) in {(f, o2["line"]) for f, occ in case["occ"].items() for o2 in occ if o2.get("neg")} else k[2]): n
                       for k, n in obs["A"].items() if (k[0], k[1]) not in range_lines and (k[0], k[1]) not in range_plain})
        exp = Counter({k: n for k, n in exp.items() if (k[0], k[1]) not in range_plain})
        for f in case["occ"]:
            cats = sorted({o2["cat"] for o2 in case["occ"][f]})
            nexp = sum(n for k, n in exp.items() if k[0] == f)
            ctx.nontrivial([f.rsplit(".", 1)[1], cats, min(nexp, 8), sorted({type(o2["value"]).__name__ for o2 in case["occ"][f] if o2["value"] is not None})])
            for o2 in case["occ"][f]:
                ctx.count("occ:%s:%s" % (f.rsplit(".", 1)[1], o2["cat"]))
        ctx.count("violations_expected", sum(exp.values()))
        if got != exp:
            for k in list((exp - got).elements())[:6]:
                # wrong value on the right line?
                same_line = [g for g in got if g[0] == k[0] and g[1] == k[1]]
                if same_line:
                    key = classify(k[0], k[1], case, "wrong-value", None)
                    ctx.discrepancy(key, "case %d %s:%d literal %r reported with value %r" % (case["idx"], k[0], k[1], k[2], same_line[0][2]),
                                    dict(rep, expected=list(k), observed=list(same_line[0])), files)
                else:
                    key = classify(k[0], k[1], case, "missed", None)
                    ctx.discrepancy(key, "case %d %s:%d literal %r (not allowed, not exempt) is not reported" % (case["idx"], k[0], k[1], k[2]),
                                    dict(rep, expected=list(k)), files)
            for k in list((got - exp).elements())[:6]:
                if any(e[0] == k[0] and e[1] == k[1] for e in exp):
                    if got[k] > 1:
                        ctx.discrepancy(classify(k[0], k[1], case, "duplicate", None), "case %d %s:%d reported %d times" % (case["idx"], k[0], k[1], got[k]), rep, files)
                    continue
                key = classify(k[0], k[1], case, "spurious", None)
                ctx.discrepancy(key, "case %d %s:%d value %r reported but the occurrence is allowed/exempt/not a literal (line: %r)" % (
                    case["idx"], k[0], k[1], k[2], case["files"][k[0]].split("\n")[k[1] - 1].strip()), dict(rep, observed=list(k)), files)
        # range()/enumerate(): small values exempt
        for (f, line) in range_lines:
            ctx.count("range_enumerate_exempt_checked")
            hit = [k for k in obs["A"] if k[0] == f and k[1] == line]
            o2 = [x for x in case["occ"][f] if x["line"] == line][0]
            if hit and o2["value"] not in eff_allowed(case, f, case["allowed"]):
                ctx.discrepancy("spurious:py:%s:small-int" % o2["cat"], "case %d %s:%d %d inside %s() with max_small_integer=%d is reported" % (
                    case["idx"], f, line, o2["value"], o2["cat"], case["max_small"]), rep, files)
        # (b) delta law
        v = case["extra"]
        overridden = {f for f in case["occ"] if LANG_OF.get(f.rsplit(".", 1)[1]) in case.get("lang_over", {})}
        lost = Counter({k: n for k, n in (obs["A"] - obs["A+v"]).items() if k[0] not in overridden})
        gained = obs["A+v"] - obs["A"]
        ctx.count("delta_law_checked")
        if (obs["A"] - obs["A+v"]).keys() & {k for k in obs["A"] if k[0] in overridden}:
            ctx.discrepancy("delta-law:language-section-ignored", "case %d: adding %r to the top-level allowed_numbers changed files whose language has its own allowed_numbers: %r" % (
                case["idx"], v, [k for k in (obs["A"] - obs["A+v"]) if k[0] in overridden][:2]), rep, files)
        if gained or any(k[2] != v for k in lost) or any(k[2] == v and k[0] not in overridden for k in obs["A+v"]):
            ctx.discrepancy("delta-law", "case %d: adding %r to allowed_numbers: lost %r gained %r remaining-with-value %r" % (
                case["idx"], v, list(lost.elements())[:3], list(gained.elements())[:3], [k for k in obs["A+v"] if k[2] == v][:2]), rep, files)
        # (c) max_small_integer only changes range/enumerate literals, and only removes
        diff = (obs["A"] - obs["m+"]) + (obs["m+"] - obs["A"])
        ctx.count("max_small_sweep_checked")
        for k in diff:
            line_text = case["files"][k[0]].split("\n")[k[1] - 1]
            if "range(" not in line_text and "enumerate(" not in line_text:
                ctx.discrepancy("max-small-affects-other", "case %d: raising max_small_integer changed %r (%r)" % (case["idx"], k, line_text.strip()), rep, files)
        if obs["m+"] - obs["A"]:
            ctx.discrepancy("max-small-not-monotone", "case %d: raising max_small_integer added %r" % (case["idx"], list((obs["m+"] - obs["A"]).elements())[:2]), rep, files)
    c0 = cases[0]
    f0 = "pkg/mod0.py"
    ctx.sample({"file": f0, "allowed": c0["allowed"], "max_small": c0["max_small"], "text_head": c0["files"][f0][:500], "occurrences": c0["occ"][f0][:8]})
    ctx.inconclusive_if(ctx.counters["violations_expected"] < 100, "fewer than 100 expected violations in the workload")
