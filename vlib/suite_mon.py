"""Run the repository's own test suite under our monitors (thorough tiers of C11 and C12).

The suite is 2100+ scenarios written by the maintainers: a different workload from our generators. It runs in a scratch copy of
the tree under test with (a) the H1 failure tap on - every exception the orchestrator swallows is logged - and (b) the C12
location contract installed on the real Orchestrator.lint_file by a pytest plugin (vlib/pytest_plugins/contracts.py).
A test outcome is NOT judged here (that is the pinned suite's job); only what the monitors observe is.
"""
from __future__ import annotations

import json
import os
import shutil
import subprocess
import sys

from . import runner


def run(timeout=1800):
    base = runner.new_dir("suite")
    repo = os.path.join(base, "repo")
    subprocess.run(["rsync", "-a", "--exclude", ".git", "--exclude", "htmlcov", "--exclude", "__pycache__", runner.REPO.rstrip("/") + "/", repo + "/"], check=True)
    faillog, mon = os.path.join(base, "faillog"), os.path.join(base, "mon.json")
    env = dict(os.environ, THAILINT_VERIF="1", THAILINT_VERIF_FAILLOG=faillog, VERIF_SUITE_MON=mon,
               PYTHONPATH=os.pathsep.join([repo, runner.VERIF, os.path.join(runner.VERIF, ".deps")]))
    try:
        p = subprocess.run([sys.executable, "-m", "pytest", "-q", "-p", "no:cacheprovider", "-p", "vlib.pytest_plugins.contracts", "--timeout=900", "-q",
                            "--no-cov"], cwd=repo, env=env, capture_output=True, text=True, timeout=timeout)
        tail = (p.stdout or "")[-400:]
    except subprocess.TimeoutExpired:
        shutil.rmtree(base, ignore_errors=True)
        return {"timeout": True}
    out = {"timeout": False, "tail": tail, "swallowed": runner._read_faillog(faillog)}
    try:
        with open(mon, encoding="utf-8") as f:
            out["mon"] = json.load(f)
    except (OSError, ValueError):
        out["mon"] = None
    import re
    m = re.search(r"(\d+) passed", tail)
    out["passed"] = int(m.group(1)) if m else None
    shutil.rmtree(base, ignore_errors=True)
    return out
