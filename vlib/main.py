"""./check <id> [--tier quick|thorough] [--seed N] [--replay path]"""
from __future__ import annotations

import argparse
import importlib
import json
import os
import sys
import traceback

from . import core, runner


def main(argv=None) -> int:
    ap = argparse.ArgumentParser()
    ap.add_argument("prop")
    ap.add_argument("--tier", default=os.environ.get("VERIF_TIER") or "quick", choices=["quick", "thorough"])
    ap.add_argument("--seed", type=int, default=int(os.environ.get("VERIF_SEED") or 0))
    ap.add_argument("--replay")
    a = ap.parse_args(argv)
    prop = a.prop.upper()
    mod = importlib.import_module("vlib.props.%s" % prop.lower())
    try:
        if a.replay:
            return replay(mod, prop, a.replay)
        ctx = core.Ctx(prop, a.tier, a.seed)
        try:
            mod.run(ctx)
        except Exception:  # harness failure: never a property verdict
            traceback.print_exc()
            ctx.inconclusive.append("harness exception: " + traceback.format_exc().strip().splitlines()[-1])
        return ctx.finish()
    finally:
        runner.cleanup_scratch()


def replay(mod, prop, path) -> int:
    with open(os.path.join(path, "case.json"), encoding="utf-8") as f:
        rec = json.load(f)
    print("replaying %s key=%s\n  %s" % (prop, rec.get("key"), rec.get("what")))
    if hasattr(mod, "replay"):
        return mod.replay(rec, path)
    case = rec.get("case") or {}
    proj = os.path.join(path, "project")
    runs = case.get("runs") or ([case] if case.get("argv") else [])
    for r in runs:
        if not r.get("argv"):
            continue
        d = runner.new_dir("r")
        if os.path.isdir(proj):
            import shutil

            shutil.copytree(proj, d, dirs_exist_ok=True)
            os.makedirs(os.path.join(d, ".git"), exist_ok=True)
        res = runner.cli_real(r["argv"], os.path.join(d, r.get("cwd_rel", ".")), r.get("env"))
        print("$ thailint %s\nexit=%s\n%s%s" % (" ".join(r["argv"]), res.exit, res.out, res.err))
    print("expected: %s" % json.dumps(case.get("expected"), default=str)[:2000])
    print("observed: %s" % json.dumps(case.get("observed"), default=str)[:2000])
    return 0


if __name__ == "__main__":
    sys.exit(main())
