#!/bin/bash
# tools/sweep.sh "<ids>" "<seeds>" [tier]  - run checks over seeds, print one line per run
cd "$(dirname "$0")/.."
ids="${1:-$(python3 -c "import json;print(' '.join(c['property_id'] for c in json.load(open('MANIFEST.json'))['checks']))")}"
seeds="${2:-0 1 2 3 4}"
tier="${3:-quick}"
for id in $ids; do for s in $seeds; do
  out="$(VERIF_NO_EVIDENCE=1 VERIF_SEED=$s ./check $id --tier $tier 2>&1)"; code=$?
  echo "$id seed=$s exit=$code $(echo "$out" | grep -E '^(HELD|VIOLATED|INCONCLUSIVE) ' | tail -1 | cut -c1-150)"
  [ $code -ne 0 ] && echo "$out" | grep -E '^(VIOLATION|INCONCLUSIVE)' | head -4 | cut -c1-400
done; done
exit 0
