#!/usr/bin/env python3
"""Regenerate MANIFEST.json from the table below (keeps it schema-valid at all times)."""
import json, os, subprocess
HERE = os.path.dirname(os.path.dirname(os.path.abspath(__file__)))
BASE = json.load(open("/root/.vp/BASELINE.json"))

CHECKS = {
 # id: (technique, level text, level note, design ref)
 "C01": ("runtime monitoring: boundary trace of `thailint nesting` runs over generated control-flow skeletons with ground-truth depth; exact-set, wrap+1, monotone-flip and cross-language oracles",
         "Held on the executions observed: every generated function in py/ts/js/rs is judged against its constructed depth for every limit 1..depth+2, plus metamorphic relations; evidence lists functions, construct kinds and limits seen. Round-6 additions: Python functions defined inside else / elif / except / finally / case / if / with blocks, try / except*, brace-language functions laid out on one line / two lines per line / body on one line.",
         "Trusted: the generator's abstract depth, the message regex, CPython ast / bare tree-sitter for syntax checking of generated files. else-if chains in brace languages and nested named functions are not generated (documentation silent).",
         "DESIGN.md section 4 C01"),

 "C06": ("runtime monitoring: process-boundary trace (exit status + stdout bytes) of the same run under --format text/json/sarif; offline checker with independent extractors, structural SARIF 2.1.0 validator, exit-code law, usage-error classes",
         "Held on the executions observed: all 20 linter commands x 3 formats over trigger projects with zero/one/many violations, hostile names and messages, and about 110 usage-error classes (missing paths / configs, unparsable files, bad options, an invalid regex in 11 positions of a file-placement configuration x 3 carriers, out-of-domain and non-numeric thresholds per linter); evidence lists commands, record counts and classes seen. Round-6 additions: keys written without a value for every documented key (refused or treated as absent, never swallowed rule failures), configuration paths that are directories / lists / missing beside other options, console encodings latin-1 / ascii / cp1252 on the real console script. Round-7 additions: under those console encodings the json and sarif documents themselves are decoded, parsed and compared with the UTF-8 run; malformed JSON that is well-formed YAML behind --config; the same settings as YAML, tab-indented JSON and compact JSON behind --config for eight commands.",
         "Trusted: the extractors in vlib/oracles/formats.py; text form path[:line][:column]; text not judged when a path or message contains a newline; group-level --config (application config, documented fallback to defaults) is not treated as a usage error.",
         "DESIGN.md section 4 C06"),

 "C07": ("runtime monitoring: sequential-vs-parallel result histories at the library and CLI boundary; schedule controller forcing seeded completion orders of the worker futures (natural orders recorded); exactly-once dispatch monitor fed by events from the forked pool workers",
         "Held on the executions observed: worker counts 1..16, file counts on both sides of the 2 x workers fallback threshold, forced and natural completion orders, per-file and cross-file rules, invalid-configuration variant, overlapping targets, --no-recursive, empty explicit configs, Orchestrator objects with a history (an earlier run, a configuration loaded afterwards) asked through both entry points; evidence lists orders, pids and dispatch events seen. Round-6 additions: an alias-bait pair of modules in every project of >= 8 files.",
         "Trusted: the sequential run as specification; fork start method (wrappers inherited by workers); completion orders are permuted in the parent after all futures finished.",
         "DESIGN.md section 4 C07"),

 "C10": ("runtime monitoring: boundary trace of directory / per-file / file-list CLI runs and Linter.lint calls (forked child) on generated trees; union-law and CLI==library oracles over violation multisets",
         "Held on the executions observed: all 20 commands on generated multi-language trees, directory vs union of files (also under --parallel / --no-recursive / both), random file lists and mixed file+directory lists, CLI vs library for files, directories and cross-file rules; evidence counts each comparison kind. Round-6 additions: unparsable .py / .ts files in every project (also as library targets).",
         "Trusted: path normalisation against the working directory; the library rule name is the one each linter's docs pass to Linter.lint(rules=[...]); union laws only for per-file rules.",
         "DESIGN.md section 4 C10"),

 "C09": ("runtime monitoring: boundary trace of identical project content under different parent directories / working directories / target spellings; relational oracle against the reference run after mapping reported paths (also inside messages) to project-relative paths",
         "Held on the executions observed: every built-in excluded directory name and test-marker substring as parent, fifteen spellings (dot, absolute, relative, .., sibling, file lists, --project-root, from inside sub-directories), the same under --parallel, a library walk (one process, the same relative spellings from one working directory after another, compared with fresh processes given absolute paths), per-linter ignore patterns named like possible parent directories, all 20 commands; evidence counts comparisons per parent class and spelling. Round-6 additions: ignore files of their own in the directories a command is started from, findings suppressed by every directive form (incl. a suppressed duplicate block), a conditional-verbose construct.",
         "Trusted: the path normaliser; each generated project root carries a .git/ marker; the reference is '.' from inside an innocuous parent.",
         "DESIGN.md section 4 C09"),

 "C15": ("runtime monitoring: boundary trace of every command over trigger, polyglot (swapped-language / unsupported-type) and twin (extension case, tsx/jsx, shebang) projects and under random foreign configuration sections; rule-family, silence and relational oracles",
         "Held on the executions observed: 20 commands x rule-id family, random valid settings of the other linters' sections (hyphen/underscore; repeated under --parallel on a padded project, including the other cross-file rule switched off), language-specific linters on other-language and unrecognised files, extension-case/tsx/jsx/shebang twins; evidence counts each relation. Round-6 additions: the per-rule switch of a sibling rule inside a shared section (performance) as foreign configuration. Round-7 additions: extension-case twins under per-language sections (nesting / srp / dry) that differ from the global thresholds, every file twice; a test-named Python file (calc_test.py) in every twin.",
         "Trusted: the family table from the docs; which linters are language-specific (per-linter docs); file-placement and file-header are exempt from the unrecognised-type clause (they document non-source types).",
         "DESIGN.md section 4 C15"),

 "C08": ("runtime monitoring: (a) permuted-argument runs, (b) PYTHONHASHSEED sweep on the real console script, (c) scripted histories (lint/edit/delete/add/touch) on one long-lived Linter/Orchestrator checked offline against a fresh-object specification recomputed in a pristine process, (d) sys.addaudithook mutation log + before/after tree snapshots + TMPDIR/HOME residue on real processes (sequential, --parallel, both DRY storage modes)",
         "Held on the executions observed (order and hash-seed workloads include 'crowded' projects with more call sites / occurrences / files per finding than a message lists); evidence lists permutations, seeds, history lengths and operation mix, fresh-vs-reused comparisons, audit events by kind and pids seen. Round-6 additions: the one-file entry point Orchestrator.lint_file in the histories, an edited .thailintignore followed by a NEW object in the same process.",
         "Trusted: 'fresh object in a pristine forked process on the re-materialised disk state' as the specification of each call; messages compared after removing the project-root prefix.",
         "DESIGN.md section 4 C08"),

 "C02": ("runtime monitoring: boundary trace of `thailint magic-numbers` on generated py/ts/js/rs programs whose literal occurrences (line, value, lexical form, exemption category) are known by construction; exact-multiset, allowed_numbers delta-law and max_small_integer oracles",
         "Held on the executions observed: ints, floats, hex/octal/binary, underscore, Rust-suffixed, BigInt and unary-minus literals in assignments, calls, returns, defaults, collections, nested scopes and multi-line calls; every documented exemption; random allowed_numbers / max_small_integer; evidence counts occurrences per language and category. Round-6 additions: letter case of literal prefixes and exponents, magnitudes from 1e-12 to 1e21, nested constant arithmetic (TS, Rust), Rust leading-zero decimals, production attributes that mention test, file and directory names that merely contain a test marker.",
         "Trusted: the generator's ground truth; numeric comparison of the value named in the message; '-v' with exactly one of v/-v allowed and files near the definition-module threshold are not judged.",
         "DESIGN.md section 4 C02"),

 "C16": ("runtime monitoring: boundary trace of `thailint srp` on generated classes/structs with known public-method count, LOC and name; exact verdict + message-content oracle under swept thresholds and per-language overrides",
         "Held on the executions observed: Python/TS/JS classes and Rust struct+impl with public/private/dunder/constructor/property/static/class/async members, LOC padded to limit-2..limit+2 with blank and comment lines, keyword on/off and custom lists, per-language overrides in yaml/json; evidence counts classes per language and boundary deltas. Round-6 additions: TS classes nested in a method / as a static class-expression field, comment markers inside string fields, language-private methods (#name, private), property setters / deleters, same-named Rust structs in other modules.",
         "Trusted: renderer ground truth (public methods, non-blank non-comment LOC); constructs the documentation is silent about are not generated.",
         "DESIGN.md section 4 C16"),

 "C17": ("runtime monitoring: boundary trace of `thailint unwrap-abuse|clone-abuse|blocking-async` on generated Rust files with planted calls of known kind, line and context (test/async/loop/wrapper); exact (rule id, line) multiset oracle per option setting",
         "Held on the executions observed: sync/async functions, impl methods, #[test]/#[tokio::test] mixed with other attributes and comments, #[cfg(test)] and plain modules (nested), loops of every kind, chains, look-alikes, blocking wrappers, calls inside macro arguments, std::net types imported by name, awaited async twins, risky calls as sub-expressions (arguments, conditions, scrutinees, inside awaited calls / chains / async blocks); allow_in_tests / allow_expect / detect_* swept in yaml/json with hyphen/underscore section names; evidence counts planted calls per kind and context. Round-6 additions: stored (not awaited) futures of the async twins, inline format arguments as later uses, turbofish calls, nested cfg negations and cfg_attr(test, ..) as production attributes.",
         "Trusted: generator ground truth; clone statements constructed to fall into exactly one documented category; constructs the documentation is silent about are not generated.",
         "DESIGN.md section 4 C17"),

 "C18": ("runtime monitoring: boundary trace of `thailint file-placement` under generated rule sets (inline --rules, yaml/json section hyphen/underscore, --config) over a tree with look-alike directories; reference evaluator written from the property text; invalid-regex cases must exit 2",
         "Held on the executions observed: random rule sets over a directory/pattern alphabet (nested directory rules, overlapping allow/deny, global_deny, global_patterns) x 29 paths (4 of them symbolic links across rule boundaries), runs from the root and from a sub-directory, relative and absolute target spelling; thorough tier enumerates all directory-key pairs x 3x3 rule bodies exhaustively; evidence counts verdicts and carriers. Round-6 additions: hidden directories and their dot-less look-alikes, a numeric directory name (YAML int key), the project root spelled absolutely through '..'.",
         "Trusted: the reference evaluator (deny over allow, most specific containing directory by path components, directory over global, re.search case-insensitive); files compared as a set.",
         "DESIGN.md section 4 C18"),

 "C14": ("runtime monitoring: every file of a generated tree carries planted violations (file-placement deny-all, a magic number in each source file) so the reported path set is the observable linted set; compared with a reference walker + reference matcher for the documented ignore-pattern forms",
         "Held on the executions observed: trees with hidden directories, every built-in excluded name at any depth and as a file name, look-alikes, compiled artefacts, empty directories; pattern sets in .thailintignore / yaml ignore / both; targets '.', sub-directories, explicit (also excluded/ignored) files and mixtures; recursive and --no-recursive; evidence counts file verdicts per target kind and pattern source. Round-6 additions: '**/dir/' patterns, BOM-prefixed .thailintignore, absolute targets through '..', and a cross-file workload (dry / stringly-typed, sequential and --parallel) in which ignored and excluded files must not contribute.",
         "Trusted: the reference walker/matcher (forms dir/, *.ext, exact path, dir/**, **/*_gen.py without root-level candidates); no symlinks; no nested .git directories (they start a nested project root).",
         "DESIGN.md section 4 C14"),

 "C03": ("runtime monitoring: boundary trace of `thailint dry` on generated projects with planted duplicate runs of known length, multiplicity and places; offline checker with an independent normaliser for soundness (named text identical), mutuality, completeness (intersection), occurrence counts and silence on duplicate-free projects",
         "Held on the executions observed: py/ts/js projects, runs of length W-1..W+4 and multiplicity 2-5 across files and twice in one file, different indentation, interleaved blank/comment/trailing-comment lines, suppressed occurrences, min_duplicate_lines 2-6, min_occurrences 2-4, both storage modes, '.', explicit file lists and mixed file+directory arguments; evidence counts occurrences, violations and counts checked. Round-6 additions: planted runs inside methods, async methods, nested-class methods, arrow-function class properties; trailing block / doc comments on planted lines.",
         "Trusted: uniqueness of filler statements by construction; the harness normaliser (string-aware, per-language comment markers; statements with the other language's marker or a marker inside a string literal are part of the strict workload); 'covered' = intersected.",
         "DESIGN.md section 4 C03"),

 "C04": ("runtime monitoring: base run vs variant run (one suppression directive inserted) of every linter command and of an unrelated witness command, for every cell of the matrix linter x language x directive form x rule-name spelling x placement; a scope model written from the property text predicts the variant",
         "Held on the executions observed: 19 commands (lazy-ignores excluded as a subject), py/ts/rs files, same-line / next-line / block / file-level (lines 1,5,10 in scope, 11,40 out of scope) / .thailintignore / config ignore / per-linter ignore (exact path in the matrix; every pattern form of docs/configuration.md - exact, **/name, dir/**, **/dir/**, name_*.ext, substring, nested tests/** - for the 16 linters that document the option), spellings full id / prefix / prefix.* / alias / upper case / list / bare, negative controls (other rule, placed away); thorough tier enumerates the whole matrix; evidence counts cells ok/fail. Round-6 additions: block markers that repeat the rule name or use brackets, an ignore-next-line comment at the end of the finding's own line (each with other-rule controls; the full and the bare spelling are drawn for every next-line / block cell on the quick tier too). Round-7 addition: bracket lists typed with blanks after the commas, the rule in last place.",
         "Trusted: the scope model and the rule-name matcher (vlib/props/c04.py); line numbers inside messages are masked; per-linter ignore is judged only for linters whose documentation lists the option; file-header/file-placement only with forms that do not alter their subject.",
         "DESIGN.md section 4 C04"),
 "C05": ("runtime monitoring: boundary trace of linter commands on a staircase probe project (constructs straddling every threshold value) under the same setting written through .thailint.yaml / .thailint.json / pyproject.toml / --config (command and group level) with hyphen or underscore section names; relational oracles (carrier equivalence, enabled:false silence, effect + monotonicity along sweeps, precedence decoding, top-level ignore, exit 2 for invalid values and unparsable files)",
         "Held on the executions observed: 20 commands x enabled:false x carriers; one sweep per documented threshold / switch / list-valued key (66: every key of the option tables in docs/*-linter.md and docs/configuration.md except cqs, dry.filters and dry.storage_mode, including nested sub-rule sections of performance); precedence yaml>json>pyproject and CLI options vs file values and per-language overrides; top-level ignore in every carrier; ten invalid values and eight unparsable-file variants; evidence counts each case class. Round-6 additions: per-family effect of a sweep (range() / enumerate(); per language), top-level ignore for every command, alias section names, override lists, configuration files as project-root markers without .git.",
         "Trusted: the staircase project (vlib/gen/staircase.py) has constructs on both sides of each swept value; 'invalid' = rejected by the linter's own validation through .thailint.yaml (plus the documented non-positive limits).",
         "DESIGN.md section 4 C05"),

 "C11": ("runtime monitoring: failure tap (repository hook H1: every exception the orchestrator swallows, self-tested each run with an injected rule failure), process monitor (exit status, signals, tracebacks, faulthandler), watchdog with confirmation run, and sibling-result comparison, over mutated and blown-up inputs placed among healthy files",
         "Held on the executions observed: 19 byte-level/grammar-aware mutators applied 1-4 in sequence to repository sources, trigger files and generated programs in py/ts/js/rs; nesting/length blow-ups of six kinds at four depths; 10^3-10^4 functions; unknown extensions; every registered rule runs on every offending file (lint_directory), CLI layer sampled over commands/formats/--parallel; evidence counts mutator classes, swallowed events and sibling comparisons. Round-6 additions: damaged suppression / tool comments (unterminated rule lists, stray punctuation, thousands of items) in four languages.",
         "Trusted: hook H1 (self-tested); the repository's own test suite is run as a second workload under the tap (no scenario may end in a swallowed exception); sibling comparison excludes cross-file rules except for offenders CPython cannot parse; TypeScript DRY analysis is quadratic, so the many-functions case is capped at 300 functions for ts/js (slow is not a hang).",
         "DESIGN.md section 4 C11"),

 "C12": ("runtime monitoring: location contract on every reported violation at the CLI boundary (file in run, line in range, byte column in line), an icontract postcondition on the real Orchestrator.lint_file inside the running process (evaluation-counted), and a construct-on-line oracle with generator ground truth",
         "Held on the executions observed: nesting / literal / class / Rust-call / multi-line-construct generators and the trigger project under layout variation (0-400 leading lines, CRLF, no final newline, indentation, decorators, multi-line headers and calls) for all commands; evidence counts violations inspected, constructs checked per family and contract evaluations. Round-6 additions: extreme float magnitudes in the literal workloads; the contract is attached to the per-file step every entry point uses.",
         "Trusted: generator facts (header lines, literal lines, call spans); the same contract (plus the ground-truth-free part of the construct-on-line oracle) also observes every lint_file call of the repository's own test suite via a pytest plugin; columns are byte offsets; syntax-error notices and file-placement are exempt.",
         "DESIGN.md section 4 C12"),

 "C13": ("runtime monitoring: base run vs edited run (sequence of 1-4 meaning-preserving edits) of the relevant commands; metamorphic oracle on (rule, file, mapped line, message*) multisets, columns included when the edit leaves indentation and line 1 alone",
         "Held on the executions observed: bases with constructs on and around the configured thresholds (nesting depth == limit, class LOC == max_loc, run length == min_duplicate_lines) plus the trigger project; edits: blank/comment insertion, trailing whitespace, consistent re-indentation, LF->CRLF, add/remove BOM, appended code, renaming of filler identifiers; evidence counts comparisons per edit kind. Round-6 additions: comment text with quotes, comment openers and non-ASCII; appended code that reuses local names; compact brace-language layouts with inserts around dense lines; lazy-ignores bases; statements broken over several lines; shared module constants in the DRY bases.",
         "Trusted: edits are meaning-preserving on the generated files (no multi-line strings, renames touch only filler identifiers); header-sensitive linters only below line 12; DRY messages compared on occurrence count.",
         "DESIGN.md section 4 C13"),

 "C20": ("runtime monitoring: command histories with file bytes recorded before/after every command, exit codes and stdout; offline checkers against (a) a key-path state model of the user's .thailint.yaml for init-config merges (plus threshold decoding on the staircase probe and byte-idempotence), (b) preset files accepted by every linter command, (c) a dict model with the documented value conversion for config set/get/reset incl. independent YAML/JSON reload",
         "Held on the executions observed: generated existing configs (section subsets, hyphen/underscore, block/flow style, comments, banner look-alikes, CRLF, no final newline, document markers) x three init-config runs with presets; four preset files x 20 commands; set/get/reset histories with valid, invalid and YAML-special values over cfg.yaml and cfg.json; evidence counts merge runs, in-effect checks, accepted/rejected sets and get checks. Round-6 additions: interactive init-config steps (answer on stdin, real console script). Final-sweep additions: an existing .thailint.json named with --output (judged by the JSON parser the tool uses for it), preset files written under both auto-discovered names, custom-key text holding NEL / LS / PS. Round-7 additions: JSON-native text (tab indentation, exponent floats) in existing JSON configurations, configuration names with an upper-case suffix (Lint.JSON, lint.YML) handed over with --config.",
         "Trusted: yaml.safe_load / json.loads as independent parsers; Python literal syntax as the documented int/float conversion; validated keys as in src/config.py.",
         "DESIGN.md section 4 C20"),

 "C19": ("runtime monitoring: boundary trace of the documented command (Linter.lint for cqs) on every labelled code block re-extracted from docs/*-linter.md at run time, as is and under embeddings (unrelated code before/after, inside a function / an if block, repeated with renamed definitions); conformance + relational oracle",
         "Held on the executions observed: all fenced python/typescript/javascript/rust blocks with a violating ('Code with violation(s)', 'Detects', 'Before' outside refactoring sections) or acceptable ('Refactored code', 'After', 'EAFP alternative', 'Fixed code') label, with the configuration the doc attaches to them; blocks that mark their parts with '# Detected ... / # Not detected ...' comments are split into examples; pattern-linter examples under about 30 embeddings (filler, function / if / for / while / class / try / with / else / except / finally / match arms / async def, renamed identifiers, import variants, TS scopes); evidence counts blocks total/judged/skipped and embeddings checked. Round-6 additions: TS / JS examples also run in the twin language's file type; blocks classified by their headings ('(No Violations)', 'Suppression Declaration Format'); embeddings in-method and the remaining compound statements.",
         "Trusted: the label classification (vlib/gen/docs.py) and the hand-reviewed exceptions in corpus/overrides.json; 'Before' blocks of refactoring sections and elided code are only used relationally; embeddings that do not parse are discarded.",
         "DESIGN.md section 4 C19"),
}
PENDING = {}
props = [json.loads(l) for l in open(os.path.join(HERE, "properties.jsonl"))]
checks, na = [], []
for p in props:
    pid = p["id"]
    if pid in CHECKS:
        tech, text, note, ref = CHECKS[pid]
        checks.append({
            "property_id": pid,
            "quick_cmd": "./check %s --tier quick" % pid,
            "thorough_cmd": "./check %s --tier thorough" % pid,
            "evidence_file": "evidence/%s.json" % pid,
            "replay_cmd_template": "./check %s --replay {path}" % pid,
            "engine": "vlib",
            "level_claimed": {"category": "exploration", "text": text, "design_ref": ref},
            "level_note": note,
            "technique": tech,
        })
    else:
        na.append({"property_id": pid, "reason": PENDING.get(pid, "check not built yet in this session (runtime-monitoring design in DESIGN.md section 4); not claimed until its monitor exists and is silent on the unchanged tree")})
hooks_commits = subprocess.run(["git", "-C", "/repo", "log", "--format=%h", "--grep=^verif hook"], capture_output=True, text=True).stdout.split()
man = {
 "version": 1,
 "setup_cmd": "./setup.sh",
 "hooks": {
   "guard": "THAILINT_VERIF",
   "enable": "env THAILINT_VERIF=1 THAILINT_VERIF_FAILLOG=<file> set by ./check for every run; no build step (pure Python, PYTHONPATH=$VERIF_REPO, default /repo)",
   "baseline_off_cmd": "cd /repo && env -u THAILINT_VERIF -u THAILINT_VERIF_FAILLOG " + BASE["cmd"].split("&& ",1)[1].replace("<file>", "/tmp/thailint-baseline-off.junit.xml"),
   "source_commits": hooks_commits,
   "add_only": True,
 },
 "engines": [{"name": "vlib", "path": "vlib/", "serves_properties": [c["property_id"] for c in checks],
              "kind_free_text": "python harness: warm-fork (zygote) CLI runner + real console-script runner, boundary trace recorders, failure-tap hook H1, icontract contracts, audit hook / strace / tree snapshots, seeded generators with ground truth, reference models, offline trace checkers"}],
 "checks": checks,
 "not_applicable": na,
 "notes": "All checks: exit 0 held / exit 1 + VIOLATION line / exit 2 INCONCLUSIVE (monitor observed too little; never on a healthy tree). Known findings: KNOWN_FINDINGS.txt. VERIF_SEED / VERIF_TIER honoured. VERIF_REPO selects the tree under test (default /repo).",
}
json.dump(man, open(os.path.join(HERE, "MANIFEST.json"), "w"), indent=1)
print("checks:", [c["property_id"] for c in checks], "na:", len(na))
