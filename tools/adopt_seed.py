#!/usr/bin/env python3
"""tools/adopt_seed.py <Cxx> [<seed-dir>] [--checks "C01 C12"] [--no-suite]
Confirm a seeded change independently (applies to /repo HEAD in a scratch copy, demo fails with / passes without, pinned suite
still passes) and run our checks against it. Writes /verif/seeded/<name>/{patch.diff,demo.py,notes.md,meta.json}."""
import json, os, shutil, subprocess, sys, tempfile, time
HERE = os.path.dirname(os.path.dirname(os.path.abspath(__file__)))
args = sys.argv[1:]
pid = args[0]
src = args[1] if len(args) > 1 and not args[1].startswith("--") else "/tmp/wt-%s/_seed" % pid
checks = [pid]
if "--checks" in args:
    checks = args[args.index("--checks") + 1].split()
name = os.environ.get("SEED_NAME", pid)
dst = os.path.join(HERE, "seeded", name)
os.makedirs(dst, exist_ok=True)
for f in ("patch.diff", "demo.py", "notes.md"):
    if os.path.exists(os.path.join(src, f)):
        shutil.copy(os.path.join(src, f), os.path.join(dst, f))
work = tempfile.mkdtemp(prefix="vfseed.")
def sh(cmd, **kw):
    return subprocess.run(cmd, shell=True, capture_output=True, text=True, **kw)
meta = {"property": pid, "name": name, "repo_head": sh("git -C /repo log --format=%h -1").stdout.strip()}
try:
    clean, mut = os.path.join(work, "clean"), os.path.join(work, "mut")
    for d in (clean, mut):
        sh("rsync -a --exclude .git --exclude htmlcov --exclude __pycache__ /repo/ %s/" % d)
    r = sh("patch -p1 -s < %s" % os.path.join(dst, "patch.diff"), cwd=mut)
    meta["patch_applies"] = r.returncode == 0
    if r.returncode != 0:
        meta["patch_error"] = (r.stdout + r.stderr)[-400:]
    else:
        env = dict(os.environ)
        d1 = subprocess.run(["/venv/bin/python", os.path.join(dst, "demo.py")], env=dict(env, SEED_REPO=mut), capture_output=True, text=True, timeout=600)
        d0 = subprocess.run(["/venv/bin/python", os.path.join(dst, "demo.py")], env=dict(env, SEED_REPO=clean), capture_output=True, text=True, timeout=600)
        meta["demo_with_change"] = {"exit": d1.returncode, "out": (d1.stdout + d1.stderr)[-300:]}
        meta["demo_without_change"] = {"exit": d0.returncode, "out": (d0.stdout + d0.stderr)[-300:]}
        if "--no-suite" not in args:
            base = json.load(open("/root/.vp/BASELINE.json"))
            out = os.path.join(work, "junit.xml")
            t0 = time.time()
            p = sh("cd %s && env -u THAILINT_VERIF /venv/bin/python -m pytest -ra -q -p no:cacheprovider --timeout=900 --continue-on-collection-errors --junitxml=%s" % (mut, out))
            import xml.etree.ElementTree as ET
            passed = set()
            for tc in ET.parse(out).getroot().iter("testcase"):
                if not any(ch.tag in ("failure", "error", "skipped") for ch in tc):
                    passed.add("%s::%s" % (tc.get("classname"), tc.get("name")))
            missing = sorted(set(base["stable_pass"]) - passed)
            meta["suite"] = {"stable_pass": len(base["stable_pass"]), "passing_with_change": len(passed), "stable_tests_failing": missing[:5], "seconds": round(time.time() - t0)}
        meta["checks"] = {}
        for c in checks:
            for tier in ("quick",):
                r = subprocess.run(["./check", c, "--tier", tier], cwd=HERE, env=dict(os.environ, VERIF_REPO=mut, VERIF_NO_EVIDENCE="1"), capture_output=True, text=True, timeout=3000)
                lines = [l for l in r.stdout.split("\n") if l.startswith("VIOLATION")]
                meta["checks"]["%s:%s" % (c, tier)] = {"exit": r.returncode, "violation_lines": len(lines), "first": [l[:300] for l in lines[:2]]}
finally:
    shutil.rmtree(work, ignore_errors=True)
json.dump(meta, open(os.path.join(dst, "meta.json"), "w"), indent=1)
print(json.dumps(meta, indent=1)[:2500])
