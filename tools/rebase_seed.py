#!/usr/bin/env python3
"""tools/rebase_seed.py <seed-name> <python-edit-script>: re-create seeded/<name>/patch.diff on top of /repo HEAD.

The edit script is executed with cwd = a scratch copy of /repo/src's parent; it must apply the seed's change by hand.
The previous patch is kept as patch.orig.diff (once) and meta.json records the rebase."""
import json, os, subprocess, sys, tempfile, shutil
name, script = sys.argv[1], sys.argv[2]
here = os.path.dirname(os.path.dirname(os.path.abspath(__file__)))
d = os.path.join(here, "seeded", name)
w = tempfile.mkdtemp(prefix="vfrb.")
try:
    for s in ("a", "b"):
        os.makedirs(os.path.join(w, s))
        subprocess.run(["rsync", "-a", "--exclude", "__pycache__", "/repo/src", os.path.join(w, s) + "/"], check=True)
    subprocess.run([sys.executable, os.path.abspath(script)], cwd=os.path.join(w, "b"), check=True)
    r = subprocess.run(["diff", "-ruN", "a/src", "b/src"], cwd=w, capture_output=True, text=True)
    if not r.stdout.strip():
        sys.exit("edit script changed nothing")
    if not os.path.exists(os.path.join(d, "patch.orig.diff")):
        shutil.copy(os.path.join(d, "patch.diff"), os.path.join(d, "patch.orig.diff"))
    out = []
    for ln in r.stdout.split("\n"):
        if ln.startswith("diff -ruN"):
            continue
        if ln.startswith("--- a/") or ln.startswith("+++ b/"):
            ln = ln.split("\t")[0]
        out.append(ln)
    open(os.path.join(d, "patch.diff"), "w").write("\n".join(out))
    m = json.load(open(os.path.join(d, "meta.json")))
    m["rebased"] = "patch.diff re-created on /repo %s after repository fixes changed its context; the delivered patch is patch.orig.diff" % subprocess.run(["git", "-C", "/repo", "log", "--format=%h", "-1"], capture_output=True, text=True).stdout.strip()
    json.dump(m, open(os.path.join(d, "meta.json"), "w"), indent=1)
    print("rebased", name)
finally:
    shutil.rmtree(w, ignore_errors=True)
