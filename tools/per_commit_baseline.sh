#!/bin/bash
# tools/per_commit_baseline.sh [<since-commit>] - run the pinned suite on every commit of /repo after <since> (guard off) and report stable tests that fail
since="${1:-1adf64c}"
out=/tmp/per_commit_baseline.log
: > $out
for c in $(git -C /repo log --reverse --format=%h ${since}..HEAD); do
  d=$(mktemp -d /tmp/vfpc.XXXXXX)
  git -C /repo worktree add -q --detach $d $c
  ( cd $d && env -u THAILINT_VERIF /venv/bin/python -m pytest -q -p no:cacheprovider --timeout=900 --continue-on-collection-errors --junitxml=$d/junit.xml >/dev/null 2>&1 )
  python3 - $d/junit.xml $c >> $out <<'PY'
import json,sys,xml.etree.ElementTree as ET
base=json.load(open('/root/.vp/BASELINE.json'))
passed=set()
for tc in ET.parse(sys.argv[1]).getroot().iter('testcase'):
    if not any(ch.tag in ('failure','error','skipped') for ch in tc):
        passed.add('%s::%s'%(tc.get('classname'),tc.get('name')))
missing=sorted(set(base['stable_pass'])-passed)
print(sys.argv[2], 'passed', len(passed), 'stable_missing', len(missing), missing[:3])
PY
  git -C /repo worktree remove --force $d
done
echo DONE >> $out
