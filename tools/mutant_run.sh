#!/bin/bash
# tools/mutant_run.sh <patch.diff> <Cxx> [<Cyy> ...]   - run checks against a scratch copy of /repo with the patch applied
set -u
PATCH="$(readlink -f "$1")"; shift
HERE="$(cd "$(dirname "$0")/.." && pwd)"
W="$(mktemp -d /tmp/vfmut.XXXXXX)"
rsync -a --exclude .git --exclude htmlcov --exclude '__pycache__' /repo/ "$W/repo/"
( cd "$W/repo" && patch -p1 -s < "$PATCH" ) || { echo "PATCH FAILED"; rm -rf "$W"; exit 3; }
rc=0
for id in "$@"; do
  out="$(cd "$HERE" && VERIF_REPO="$W/repo" VERIF_NO_EVIDENCE=1 ./check "$id" --tier "${VERIF_TIER:-quick}" 2>&1)"
  code=$?
  echo "== $id exit=$code $(echo "$out" | grep -c '^VIOLATION') violation line(s)"
  echo "$out" | grep -E '^VIOLATION' | head -${MUT_LINES:-3} | cut -c1-300
  [ $code -eq 1 ] || rc=1
done
rm -rf "$W"
exit $rc
