#!/usr/bin/env python3
"""Run the pinned suite (guard off) and compare with BASELINE.json stable_pass. Exit 0 iff every stable test passes."""
import json, os, subprocess, sys, xml.etree.ElementTree as ET
base = json.load(open("/root/.vp/BASELINE.json"))
out = "/tmp/thailint-baseline-check.junit.xml"
env = {k: v for k, v in os.environ.items() if not k.startswith("THAILINT_VERIF")}
cmd = base["cmd"].replace("<file>", out)
extra = sys.argv[1:]
if extra:
    cmd = cmd.replace("-m pytest", "-m pytest " + " ".join(extra))
p = subprocess.run(cmd, shell=True, env=env, capture_output=True, text=True)
passed = set()
for tc in ET.parse(out).getroot().iter("testcase"):
    if not any(ch.tag in ("failure", "error", "skipped") for ch in tc):
        passed.add("%s::%s" % (tc.get("classname"), tc.get("name")))
stable = set(base["stable_pass"])
missing = sorted(stable - passed)
print("stable_pass=%d passed_now=%d missing=%d" % (len(stable), len(passed), len(missing)))
for m in missing[:40]:
    print("  NOT PASSING:", m)
os.remove(out)
sys.exit(1 if missing and not extra else 0)
