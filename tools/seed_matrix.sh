#!/bin/bash
# tools/seed_matrix.sh [tier]  - run every seeded change against the check of its property (and the extra checks named in meta.json caught_by)
cd "$(dirname "$0")/.."
tier="${1:-quick}"
for d in seeded/${SEED_GLOB:-C*}/; do
  id=$(basename "$d")
  checks=$(python3 -c "
import json,re
m=json.load(open('$d/meta.json'))
c={m['breaks_property']}
for s in m.get('caught_by',[]):
    mm=re.match(r'(C\d+)',s)
    if mm: c.add(mm.group(1))
print(' '.join(sorted(c)))")
  out=$(VERIF_TIER=$tier MUT_LINES=1 tools/mutant_run.sh "$d/patch.diff" $checks 2>&1 | grep -E "^==" | tr '\n' ' ')
  echo "$id -> $out"
done
