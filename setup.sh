#!/bin/bash
# Offline setup: runtime-contract library beside the repository's interpreter (no network needed).
set -e
HERE="$(cd "$(dirname "$0")" && pwd)"
if [ ! -d "$HERE/.deps/icontract" ]; then
  PIP_NO_INDEX=1 /venv/bin/pip install -q --no-index --find-links /opt/veriftools/wheels --target "$HERE/.deps" icontract
fi
/venv/bin/python -c "import sys; sys.path.insert(0, '$HERE/.deps'); import icontract; print('icontract', icontract.__version__)"
mkdir -p "$HERE/evidence"
